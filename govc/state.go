package main

// Symbolic state, values, heap model (DESIGN.md 3.2).

import (
	"fmt"
	"go/types"
	"strings"

	"golang.org/x/tools/go/ssa"
)

// ---- values -------------------------------------------------------------

type Val interface{}

// Scalar: any value with a single SMT sort (Bool, BV, Ref, Str, Iface, Slice, Unit).
type Scalar struct{ T Term }

// StructV: a struct value held in a register.
type StructV struct {
	Typ    types.Type // the struct type (possibly named)
	Fields []Val
}

// TupleV: multiple results.
type TupleV []Val

// PtrV: pointer into the heap. Base is the Ref of the root object whose type
// is Root; Path are field indices leading to the addressed sub-object/leaf.
// With an empty path it is a pointer to the whole object.
type PtrV struct {
	Base Term
	Root types.Type // pointee type of Base
	Path []int
}

// ElemPtr: pointer to an element of an array/slice backing store.
type ElemPtr struct {
	Base Term // Ref of the backing store
	Idx  Term // BV64 absolute index
	Elem types.Type
}

// GlobalPtr: address of a package-level variable.
type GlobalPtr struct{ G *ssa.Global }

// FuncV: a function value known to the executor.
type FuncV struct {
	Fn       *ssa.Function
	Bindings []Val // free variables
	Ref      Term  // identity as SMT Ref
}

// RangeIter: iterator over a map/string (for Range/Next).
type RangeIter struct {
	MapRef  Term
	MapType *types.Map
	Visited Term // (Array K Bool)
}

func (p PtrV) elemType() types.Type {
	t := p.Root
	for _, i := range p.Path {
		t = t.Underlying().(*types.Struct).Field(i).Type()
	}
	return t
}

// ---- obligations ----------------------------------------------------------

type Obligation struct {
	Name    string   // stable name
	Kind    string   // index, slice, nilderef, typeassert, pre, post, inv, frame, cover, ...
	Fn      string   // function (relative name incl. package)
	Pos     string   // file:line (informational only)
	Tags    []string // property ids
	Decls   []string
	Asserts []Term
	Goal    Term
	Cover   bool // must be SAT (vacuity guard)
	Models  []string // terms to fetch from the model on sat
	Note    string
	Inputs  map[string]Val // entry values of the function's parameters
	Results []Val          // return values (post obligations)

	// filled by solver
	poolTried bool
	Result string // unsat | sat | unknown | timeout | error
	Solver string
	Secs   float64
	Model  map[string]string
	Raw    string
}

// ---- state ------------------------------------------------------------------

type Frame struct {
	Fn        *ssa.Function
	Regs      map[ssa.Value]Val
	Block     *ssa.BasicBlock
	Prev      *ssa.BasicBlock
	Idx       int
	Defers    []*ssa.Defer
	DeferArgs [][]Val
	// how to bind the result in the caller when this (inlined) frame returns
	RetTo     ssa.Value
	RetStay   bool // caller does not advance (RunDefers)
	CallInstr ssa.Instruction
	LoopSeen  map[*ssa.BasicBlock]bool
	Con       *Contract // contract of Fn if it is the function under verification
	IsRoot    bool
	Names     map[string]namedVal // source-level locals seen on this path (from DebugRef)
}

type namedVal struct {
	V   Val
	T   types.Type
	Reg ssa.Value // the SSA value the local denotes
}

type State struct {
	Stack   []*Frame
	Heap    map[string]Term
	Decls   []string
	Asserts []Term
	Alloc   int
	Ghost   map[string]Term // ghost globals (non-heap), e.g. closed channels
	Path    []string        // trace of decisions (for samples / debugging)
	Dead    bool
	CallCount map[string]int // per static callee ordinal on this path (for naming)
	Lets    map[string]SV // site-level let bindings of the function under verification
	CurArgs []SV          // arguments of the root-frame call being executed
	CurRet  *SV
	seen    map[string]bool // assertions already present (deduplication)
	// Epoch counts the blocking points (yields) passed on this path: a heap
	// array first read after a yield is not the initial one (other steps ran)
	Epoch    int
	initDecl map[string]bool // initial heap arrays already declared
	Stab     []*stabTrack    // invariants of timer callbacks tracked on this path (stable.go)
}

func (s *State) top() *Frame { return s.Stack[len(s.Stack)-1] }

func (s *State) clone() *State {
	n := &State{
		Heap:    make(map[string]Term, len(s.Heap)),
		Decls:   append([]string(nil), s.Decls...),
		Asserts: append([]Term(nil), s.Asserts...),
		Alloc:   s.Alloc,
		Ghost:   make(map[string]Term, len(s.Ghost)),
		Path:    append([]string(nil), s.Path...),
		CallCount: make(map[string]int, len(s.CallCount)),
		Epoch:     s.Epoch,
		Stab:      append([]*stabTrack(nil), s.Stab...),
	}
	if s.initDecl != nil {
		n.initDecl = make(map[string]bool, len(s.initDecl))
		for k, v := range s.initDecl {
			n.initDecl[k] = v
		}
	}
	for k, v := range s.Heap {
		n.Heap[k] = v
	}
	for k, v := range s.Ghost {
		n.Ghost[k] = v
	}
	for k, v := range s.CallCount {
		n.CallCount[k] = v
	}
	if s.Lets != nil {
		n.Lets = make(map[string]SV, len(s.Lets))
		for k, v := range s.Lets {
			n.Lets[k] = v
		}
	}
	n.CurArgs = s.CurArgs
	n.CurRet = s.CurRet
	for _, f := range s.Stack {
		nf := *f
		nf.Regs = make(map[ssa.Value]Val, len(f.Regs))
		for k, v := range f.Regs {
			nf.Regs[k] = v
		}
		nf.Defers = append([]*ssa.Defer(nil), f.Defers...)
		nf.DeferArgs = append([][]Val(nil), f.DeferArgs...)
		if f.Names != nil {
			nf.Names = make(map[string]namedVal, len(f.Names))
			for k, v := range f.Names {
				nf.Names[k] = v
			}
		}
		nf.LoopSeen = make(map[*ssa.BasicBlock]bool, len(f.LoopSeen))
		for k, v := range f.LoopSeen {
			nf.LoopSeen[k] = v
		}
		n.Stack = append(n.Stack, &nf)
	}
	return n
}

func (s *State) assume(t Term) {
	if t.S == "true" {
		return
	}
	if t.Sort != SBool {
		panic("assume non-bool " + t.S)
	}
	// split top-level conjunctions: keeps quantifier-free conjuncts usable
	// by the feasibility checks and vacuity covers, and queries readable
	if strings.HasPrefix(t.S, "(and ") {
		for _, a := range splitTopArgs(t.S[len("(and ") : len(t.S)-1]) {
			s.assume(Term{a, SBool})
		}
		return
	}
	// (=> a (and b c)) becomes (=> a b), (=> a c) for the same reason
	if strings.HasPrefix(t.S, "(=> ") {
		args := splitTopArgs(t.S[len("(=> ") : len(t.S)-1])
		if len(args) == 2 && strings.HasPrefix(args[1], "(and ") {
			for _, c := range splitTopArgs(args[1][len("(and ") : len(args[1])-1]) {
				s.assume(Term{"(=> " + args[0] + " " + c + ")", SBool})
			}
			return
		}
	}
	if s.seen == nil {
		s.seen = map[string]bool{}
		for _, a := range s.Asserts {
			s.seen[a.S] = true
		}
	}
	if s.seen[t.S] {
		return // already assumed on this path
	}
	s.seen[t.S] = true
	s.Asserts = append(s.Asserts, t)
}

func (s *State) declare(name string, sort Sort) Term {
	s.Decls = append(s.Decls, fmt.Sprintf("(declare-const %s %s)", name, sort))
	return Term{name, sort}
}

// ---- heap naming ----------------------------------------------------------

// namedKey returns "pkgpath.Name" for a named type, or a structural key.
func namedKey(t types.Type) string {
	if n, ok := t.(*types.Named); ok {
		if n.Obj().Pkg() != nil {
			return n.Obj().Pkg().Path() + "." + n.Obj().Name()
		}
		return n.Obj().Name()
	}
	return types.TypeString(t, nil)
}

func shortPkg(s string) string {
	return strings.ReplaceAll(s, "github.com/energomonitor/bisquitt/", "")
}

// leafHeapName: heap array for leaf field reached by path in root type.
func leafHeapName(root types.Type, path []int) string {
	var names []string
	t := root
	for _, i := range path {
		st := t.Underlying().(*types.Struct)
		names = append(names, st.Field(i).Name())
		t = st.Field(i).Type()
	}
	if len(names) == 0 {
		// cell of non-struct type: canonical by underlying type for basic
		// types so that pointer conversions (*ClientState -> *uint32) keep
		// addressing the same storage
		if b, ok := root.Underlying().(*types.Basic); ok {
			return "|C:" + b.Name() + "|"
		}
		return "|C:" + shortPkg(types.TypeString(root, nil)) + "|"
	}
	return "|H:" + shortPkg(namedKey(root)) + ":" + strings.Join(names, ".") + "|"
}

func memName(elem Sort) string {
	switch {
	case elem.IsBV():
		return fmt.Sprintf("|M:bv%d|", elem.Width())
	default:
		return "|M:" + string(elem) + "|"
	}
}

// heapCur returns the current version of a heap array, declaring the initial
// version on first use. Initial versions have deterministic names so that
// old() can refer to them.
func (s *State) heapCur(name string, sort Sort) Term {
	if t, ok := s.Heap[name]; ok {
		return t
	}
	if s.Epoch > 0 {
		// first read after a blocking point: what other steps left there
		s.declInit(name, sort)
		t := s.declare(fmt.Sprintf("|%s!y%d|", strings.Trim(name, "|"), s.Epoch), sort)
		s.Heap[name] = t
		return t
	}
	t := s.declInit(name, sort)
	s.Heap[name] = t
	return t
}

// declInit declares the initial version of a heap array once.
func (s *State) declInit(name string, sort Sort) Term {
	if s.initDecl == nil {
		s.initDecl = map[string]bool{}
	}
	t := Term{name, sort}
	if s.initDecl[name] {
		return t
	}
	s.initDecl[name] = true
	s.declare(name, sort)
	s.closedHeapAxiom(t)
	return t
}

// closedHeapAxiom: the initial heap holds no reference to an object that
// has not been allocated yet (every reference stored in it is below the
// entry allocation frontier A0). Part of A-SLICE/heap well-formedness.
func (s *State) closedHeapAxiom(h Term) {
	_, v1 := splitArraySort(h.Sort)
	refOf := func(x string, so Sort) string {
		switch so {
		case SRef:
			return x
		case SIface:
			return "(iref " + x + ")"
		case SSlice:
			return "(sbase " + x + ")"
		}
		return ""
	}
	if r := refOf("(select "+h.S+" r!)", v1); r != "" {
		s.Asserts = append(s.Asserts, Term{fmt.Sprintf("(forall ((r! Int)) (! (=> (< r! A0) (< %s A0)) :pattern ((select %s r!))))", r, h.S), SBool})
		return
	}
	if strings.HasPrefix(string(v1), "(Array ") {
		k2, v2 := splitArraySort(v1)
		if r := refOf("(select (select "+h.S+" r!) k!)", v2); r != "" {
			s.Asserts = append(s.Asserts, Term{fmt.Sprintf("(forall ((r! Int) (k! %s)) (! (=> (< r! A0) (< %s A0)) :pattern ((select (select %s r!) k!))))", k2, r, h.S), SBool})
		}
	}
}

func (s *State) heapInit(name string, sort Sort) Term {
	if s.Epoch == 0 {
		s.heapCur(name, sort) // ensure declared
		return Term{name, sort}
	}
	if _, ok := s.Heap[name]; ok && s.initDecl[name] {
		return Term{name, sort}
	}
	return s.declInit(name, sort)
}

func (s *State) heapSet(name string, t Term) { s.Heap[name] = t }
