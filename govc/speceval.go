package main

// Evaluation of specification expressions to SMT terms in a symbolic state.

import (
	"fmt"
	"go/constant"
	"go/token"
	"go/types"
	"math/big"
	"strings"

	"golang.org/x/tools/go/ssa"
)

type SV struct {
	V     Val
	T     types.Type
	U     *big.Int // untyped integer constant
	Loc   bool     // V is a PtrV denoting the location of a struct value
	IsNil bool
	TypeV types.Type // expression denotes a type
	Pkg   *types.Package
}

// MathMap: value-semantics ghost set/map.
type MathMap struct {
	Dom Term  // (Array K Bool)
	Val *Term // (Array K V) or nil for sets
}

// SyncMapLoc: location of a sync.Map (model type) inside an object.
type SyncMapLoc struct {
	Base Term
	Root types.Type
	Path []int
}

type Env struct {
	ex      *Exec
	s       *State
	vars    map[string]SV
	oldHeap map[string]Term
	oldNil  bool // old heap = initial names
	inOld   bool
	pkg     *types.Package
	freshLo Term
	freshHi Term
	qdepth  int
	where   string
	pats    *[]string       // trigger candidates of the innermost quantifier
	qnames  map[string]bool // its bound variable names
	rng     *rangeCtx       // the sync.Map being ranged over (at a Range call site)
	// set while evaluating an opaque predicate's body: heap name -> real term
	alias *map[string]Term
	// set while a location expression (assigns clause, ghost left-hand side) is evaluated
	locMode bool
}

// rangeCtx: the map a Range closure is applied to. Inside the closure's own
// verification the map is unknown: inRange is then an uninterpreted predicate.
type rangeCtx struct {
	dom, val Term
}

func (env *Env) fail(format string, a ...interface{}) {
	env.ex.fail("spec (%s): %s", env.where, fmt.Sprintf(format, a...))
}

func (env *Env) heap(name string, sort Sort) Term {
	t := env.heap0(name, sort)
	if env.alias != nil {
		// opaque-body evaluation: hand out an alias so that the reads can
		// be identified in the resulting term (see opaque.go)
		(*env.alias)[name] = t
		return Term{aliasOf(name), sort}
	}
	return t
}

func (env *Env) heap0(name string, sort Sort) Term {
	if env.inOld {
		if !env.oldNil {
			if t, ok := env.oldHeap[name]; ok {
				return t
			}
		}
		return env.s.heapInit(name, sort)
	}
	return env.s.heapCur(name, sort)
}

func (env *Env) sub(vars map[string]SV) *Env {
	n := *env
	n.vars = vars
	return &n
}

// rootEnv: environment for the function under verification.
func (ex *Exec) rootEnv(s *State, results []Val) *Env {
	fr := s.Stack[0]
	env := &Env{ex: ex, s: s, vars: map[string]SV{}, oldNil: true, pkg: ex.pkgOf(ex.fn), where: ex.key,
		freshLo: Term{"A0", SRef}, freshHi: ex.allocFrontier(s)}
	for _, p := range ex.fn.Params {
		env.vars[p.Name()] = SV{V: fr.Regs[p], T: p.Type()}
	}
	for _, fv := range ex.fn.FreeVars {
		// captured variables are pointers to their cells: the name denotes
		// the variable's current value
		if pv, ok := fr.Regs[fv].(PtrV); ok && len(pv.Path) == 0 {
			if pt, ok := fv.Type().Underlying().(*types.Pointer); ok {
				if _, isStruct := pt.Elem().Underlying().(*types.Struct); !isStruct || modelKind(pt.Elem()) != "" {
					env.vars[fv.Name()] = env.readLoc(pv)
					env.vars["&"+fv.Name()] = SV{V: pv, T: fv.Type()}
					continue
				}
			}
		}
		env.vars[fv.Name()] = SV{V: fr.Regs[fv], T: fv.Type()}
	}
	if results != nil {
		ex.bindResults(env, ex.fn, results)
	}
	// source-level locals seen so far on this path (site assertions and loop
	// invariants may name them); parameters and results take precedence
	for n, nv := range fr.Names {
		if _, taken := env.vars[n]; !taken && ex.g.specs[n] == nil {
			env.vars[n] = SV{V: nv.V, T: nv.T}
		}
	}
	ex.bindLets(env, ex.con)
	for k, v := range s.Lets {
		env.vars[k] = v
	}
	return env
}

func (ex *Exec) bindLets(env *Env, con *Contract) {
	if con == nil {
		return
	}
	for _, l := range con.Lets {
		env.vars[l.Name] = env.eval(l.Expr)
	}
}

func (ex *Exec) bindResults(env *Env, fn *ssa.Function, results []Val) {
	rs := fn.Signature.Results()
	for i := 0; i < rs.Len(); i++ {
		sv := SV{V: results[i], T: rs.At(i).Type()}
		env.vars[fmt.Sprintf("result%d", i)] = sv
		if n := rs.At(i).Name(); n != "" && n != "_" {
			if _, clash := env.vars[n]; !clash {
				env.vars[n] = sv
			}
		}
		if rs.Len() == 1 {
			env.vars["result"] = sv
		}
	}
}

func (ex *Exec) pkgOf(fn *ssa.Function) *types.Package {
	for f := fn; f != nil; f = f.Parent() {
		if f.Package() != nil {
			return f.Package().Pkg
		}
	}
	if fn.Signature.Recv() != nil {
		t := fn.Signature.Recv().Type()
		if p, ok := t.(*types.Pointer); ok {
			t = p.Elem()
		}
		if n, ok := t.(*types.Named); ok {
			return n.Obj().Pkg()
		}
	}
	return nil
}

// ---- evaluation -------------------------------------------------------------

func (ex *Exec) evalBool(env *Env, e *E) Term {
	sv := env.eval(e)
	t := env.term(sv)
	if t.Sort != SBool {
		env.fail("expected bool, got %s in %q", t.Sort, e.Src)
	}
	return t
}

func (env *Env) term(sv SV) Term {
	if sv.U != nil {
		return BVLitBig(sv.U, 64)
	}
	if sv.IsNil {
		return TNilR
	}
	switch v := sv.V.(type) {
	case Scalar:
		return v.T
	case PtrV:
		if sv.Loc {
			env.fail("struct location used as value")
		}
		if len(v.Path) != 0 {
			env.fail("interior pointer used as value")
		}
		return v.Base
	case FuncV:
		return v.Ref
	}
	env.fail("value %T has no single term", sv.V)
	return Term{}
}

func (env *Env) resolveType(te *TypeE) types.Type {
	switch te.Kind {
	case "ptr":
		return types.NewPointer(env.resolveType(te.Elem))
	case "slice":
		return types.NewSlice(env.resolveType(te.Elem))
	case "map":
		return types.NewMap(env.resolveType(te.Key), env.resolveType(te.Elem))
	}
	if te.Pkg == "" {
		if te.Name == "iface" || te.Name == "any" {
			return types.NewInterfaceType(nil, nil)
		}
		if o := types.Universe.Lookup(te.Name); o != nil {
			if tn, ok := o.(*types.TypeName); ok {
				return tn.Type()
			}
		}
		if env.pkg != nil {
			if o := env.pkg.Scope().Lookup(te.Name); o != nil {
				if tn, ok := o.(*types.TypeName); ok {
					return tn.Type()
				}
			}
		}
		env.fail("unknown type %s", te.Name)
	}
	p := env.findPkg(te.Pkg)
	if p == nil {
		env.fail("unknown package %s", te.Pkg)
	}
	if o := p.Scope().Lookup(te.Name); o != nil {
		if tn, ok := o.(*types.TypeName); ok {
			return tn.Type()
		}
	}
	env.fail("unknown type %s.%s", te.Pkg, te.Name)
	return nil
}

func (env *Env) findPkg(name string) *types.Package {
	if env.pkg != nil {
		if env.pkg.Name() == name {
			return env.pkg
		}
		for _, im := range env.pkg.Imports() {
			if im.Name() == name {
				return im
			}
		}
	}
	// import aliases used in the repo
	alias := map[string]string{
		"snPkts": repoPrefix + "/packets", "pkts": repoPrefix + "/packets", "snPkts1": repoPrefix + "/packets1", "pkts1": repoPrefix + "/packets1",
		"mqPkts": "github.com/eclipse/paho.mqtt.golang/packets", "packets": repoPrefix + "/packets", "packets1": repoPrefix + "/packets1",
		"transactions": repoPrefix + "/transactions", "util": repoPrefix + "/util", "topics": repoPrefix + "/topics",
		"gateway": repoPrefix + "/gateway", "client": repoPrefix + "/client",
	}
	if path, ok := alias[name]; ok {
		if sp := env.ex.g.pkgs[path]; sp != nil {
			return sp.Pkg
		}
	}
	for path, sp := range env.ex.g.pkgs {
		if sp.Pkg.Name() == name || strings.HasSuffix(path, "/"+name) {
			return sp.Pkg
		}
	}
	return nil
}

func (env *Env) eval(e *E) SV {
	ex := env.ex
	switch e.Op {
	case "num":
		bi, ok := new(big.Int).SetString(e.Name, 0)
		if !ok {
			env.fail("bad number %s", e.Name)
		}
		return SV{U: bi}
	case "char":
		return SV{U: big.NewInt(int64(e.Name[0]))}
	case "str":
		return SV{V: Scalar{ex.g.strLit(e.Name)}, T: types.Typ[types.String]}
	case "id":
		return env.evalIdent(e.Name)
	case "sel":
		return env.evalSel(e)
	case "index":
		return env.evalIndex(e)
	case "slice":
		a := env.eval(e.Args[0])
		at := env.term(a)
		if at.Sort != SSlice {
			env.fail("slice expression on non-slice")
		}
		lo := BVLit(0, 64)
		if e.Args[1] != nil {
			lo = env.asBV(env.eval(e.Args[1]), 64)
		}
		hi := SlLen(at)
		if e.Args[2] != nil {
			hi = env.asBV(env.eval(e.Args[2]), 64)
		}
		return SV{V: Scalar{MkSlice(SlBase(at), BVAdd(SlOff(at), lo), BVSub(hi, lo), BVSub(SlCap(at), lo))}, T: a.T}
	case "call":
		return env.evalCall(e)
	case "conv":
		to := env.resolveType(e.Type)
		return env.convert(env.eval(e.Args[0]), to)
	case "tassert":
		x := env.eval(e.Args[0])
		t := env.resolveType(e.Type)
		pv := ex.ifacePayload(env.s, env.term(x), t)
		if p, ok := pv.(PtrV); ok && env.locMode {
			// in an assigns clause x.(*T).f names a location only when x
			// holds a *T; otherwise it names no location at all
			p.Base = Ite(ex.hasTypeCond(env.term(x), t), p.Base, Term{"(- 999999937)", SRef})
			pv = p
		}
		return SV{V: pv, T: t}
	case "typ":
		return SV{TypeV: env.resolveType(e.Type)}
	case "un":
		x := env.eval(e.Args[0])
		switch e.Name {
		case "!":
			return SV{V: Scalar{Not(env.term(x))}, T: types.Typ[types.Bool]}
		case "-":
			if x.U != nil {
				return SV{U: new(big.Int).Neg(x.U)}
			}
			t := env.term(x)
			return SV{V: Scalar{App(t.Sort, "bvneg", t)}, T: x.T}
		case "^":
			t := env.term(x)
			return SV{V: Scalar{App(t.Sort, "bvnot", t)}, T: x.T}
		}
	case "bin":
		return env.evalBin(e)
	case "forall", "exists":
		vars := map[string]SV{}
		for k, v := range env.vars {
			vars[k] = v
		}
		var decl []string
		var guards []Term
		for _, q := range e.QVars {
			t := env.resolveType(q.Type)
			so := sortOf(t)
			n := ex.g.fresh("q_" + q.Name)
			decl = append(decl, fmt.Sprintf("(%s %s)", n, so))
			qt := Term{n, so}
			if pt, ok := t.Underlying().(*types.Pointer); ok {
				vars[q.Name] = SV{V: PtrV{Base: qt, Root: pt.Elem()}, T: t}
			} else {
				vars[q.Name] = SV{V: Scalar{qt}, T: t}
			}
			_ = guards
		}
		sub := env.sub(vars)
		sub.qdepth++
		var pats []string
		sub.pats = &pats
		sub.qnames = map[string]bool{}
		for _, q := range e.QVars {
			sub.qnames[env.term(vars[q.Name]).S] = true
		}
		body := sub.ex.evalBool(sub, e.Args[0])
		bs := body.S
		if e.Op == "forall" && len(e.QVars) == 1 && len(pats) > 0 {
			// explicit triggers: element reads indexed exactly by the bound
			// variable (robust E-matching for pointwise content clauses)
			seen := map[string]bool{}
			var ps []string
			for _, p := range pats {
				if strings.Contains(p, "(ite ") {
					continue // not allowed in patterns
				}
				if !seen[p] {
					seen[p] = true
					ps = append(ps, ":pattern ("+p+")")
				}
			}
			if len(ps) > 0 {
				bs = "(! " + bs + " " + strings.Join(ps, " ") + ")"
			}
		} else if e.Op == "forall" && len(e.QVars) > 1 && len(pats) > 0 {
			// several bound variables: one multi-pattern made of the first
			// read indexed by each variable (for a map invariant these are
			// the domain tests), and one made of the last such reads
			var names []string
			for _, q := range e.QVars {
				names = append(names, env.term(vars[q.Name]).S)
			}
			pick := func(last bool) []string {
				var out []string
				for _, n := range names {
					c := ""
					for _, p := range pats {
						if strings.Contains(p, "(ite ") || !strings.Contains(p, n) {
							continue
						}
						other := false
						for _, m := range names {
							if m != n && strings.Contains(p, m) {
								other = true
							}
						}
						if other {
							continue
						}
						if c == "" || last {
							c = p
						}
					}
					if c == "" {
						return nil
					}
					out = append(out, c)
				}
				return out
			}
			var ps []string
			if a := pick(false); a != nil {
				ps = append(ps, ":pattern ("+strings.Join(a, " ")+")")
				if b := pick(true); b != nil && strings.Join(b, " ") != strings.Join(a, " ") {
					ps = append(ps, ":pattern ("+strings.Join(b, " ")+")")
				}
			}
			if len(ps) > 0 {
				bs = "(! " + bs + " " + strings.Join(ps, " ") + ")"
			}
		}
		return SV{V: Scalar{Term{fmt.Sprintf("(%s (%s) %s)", e.Op, strings.Join(decl, " "), bs), SBool}}, T: types.Typ[types.Bool]}
	}
	env.fail("cannot evaluate %s %q", e.Op, e.Name)
	return SV{}
}

func (env *Env) evalIdent(name string) SV {
	if v, ok := env.vars[name]; ok {
		return v
	}
	switch name {
	case "true":
		return SV{V: Scalar{TTrue}, T: types.Typ[types.Bool]}
	case "false":
		return SV{V: Scalar{TFalse}, T: types.Typ[types.Bool]}
	case "nil":
		return SV{IsNil: true}
	case "ret":
		if env.s.CurRet == nil {
			env.fail("ret: no call result here")
		}
		return *env.s.CurRet
	}
	if env.pkg != nil {
		if o := env.pkg.Scope().Lookup(name); o != nil {
			return env.objValue(o)
		}
	}
	if o := types.Universe.Lookup(name); o != nil {
		if tn, ok := o.(*types.TypeName); ok {
			return SV{TypeV: tn.Type()}
		}
	}
	if p := env.findPkg(name); p != nil {
		return SV{Pkg: p}
	}
	env.fail("unknown identifier %s", name)
	return SV{}
}

func (env *Env) objValue(o types.Object) SV {
	switch x := o.(type) {
	case *types.Const:
		if b, ok := x.Type().Underlying().(*types.Basic); ok && b.Info()&types.IsUntyped != 0 {
			if x.Val().Kind() == constant.Int {
				bi, _ := new(big.Int).SetString(x.Val().ExactString(), 10)
				return SV{U: bi}
			}
			if x.Val().Kind() == constant.String {
				return SV{V: Scalar{env.ex.g.strLit(constant.StringVal(x.Val()))}, T: types.Typ[types.String]}
			}
			if x.Val().Kind() == constant.Bool {
				if constant.BoolVal(x.Val()) {
					return SV{V: Scalar{TTrue}, T: types.Typ[types.Bool]}
				}
				return SV{V: Scalar{TFalse}, T: types.Typ[types.Bool]}
			}
		}
		return SV{V: Scalar{constTerm(x.Val(), x.Type(), env.ex)}, T: x.Type()}
	case *types.Var:
		sp := env.ex.g.pkgs[x.Pkg().Path()]
		if sp == nil {
			env.fail("global %s: package not loaded", x.Name())
		}
		g, ok := sp.Members[x.Name()].(*ssa.Global)
		if !ok {
			env.fail("global %s not found", x.Name())
		}
		return SV{V: env.ex.loadGlobal(env.s, g), T: x.Type()}
	case *types.TypeName:
		return SV{TypeV: x.Type()}
	}
	env.fail("unsupported object %s", o)
	return SV{}
}

// ---- selectors ------------------------------------------------------------------

func (env *Env) evalSel(e *E) SV {
	x := env.eval(e.Args[0])
	if x.Pkg != nil {
		o := x.Pkg.Scope().Lookup(e.Name)
		if o == nil {
			env.fail("%s.%s not found", x.Pkg.Name(), e.Name)
		}
		sub := *env
		return sub.objValue(o)
	}
	return env.selField(x, e.Name)
}

// structLoc converts a pointer-to-struct value or struct location to a location.
func (env *Env) structLoc(x SV) (PtrV, types.Type, bool) {
	pv, ok := x.V.(PtrV)
	if !ok {
		return PtrV{}, nil, false
	}
	if x.Loc {
		return pv, pv.elemType(), true
	}
	if pt, ok := x.T.Underlying().(*types.Pointer); ok {
		if len(pv.Path) != 0 {
			return pv, pv.elemType(), true
		}
		return PtrV{Base: pv.Base, Root: pt.Elem()}, pt.Elem(), true
	}
	return PtrV{}, nil, false
}

func (env *Env) selField(x SV, name string) SV {
	if sv, ok := x.V.(StructV); ok {
		st := sv.Typ.Underlying().(*types.Struct)
		for i := 0; i < st.NumFields(); i++ {
			if st.Field(i).Name() == name {
				return SV{V: sv.Fields[i], T: st.Field(i).Type()}
			}
		}
		for i := 0; i < st.NumFields(); i++ {
			if st.Field(i).Embedded() {
				if _, ok := sv.Fields[i].(StructV); ok {
					if r, ok := env.trySel(SV{V: sv.Fields[i], T: st.Field(i).Type()}, name); ok {
						return r
					}
				}
			}
		}
		env.fail("no field %s in struct value %s", name, sv.Typ)
	}
	if r, ok := env.trySel(x, name); ok {
		return r
	}
	env.fail("no field %s in %v", name, x.T)
	return SV{}
}

func (env *Env) trySel(x SV, name string) (SV, bool) {
	if sv, ok := x.V.(StructV); ok {
		st := sv.Typ.Underlying().(*types.Struct)
		for i := 0; i < st.NumFields(); i++ {
			if st.Field(i).Name() == name {
				return SV{V: sv.Fields[i], T: st.Field(i).Type()}, true
			}
		}
		return SV{}, false
	}
	loc, t, ok := env.structLoc(x)
	if !ok {
		return SV{}, false
	}
	if modelKind(t) != "" {
		return SV{}, false
	}
	st, ok := t.Underlying().(*types.Struct)
	if !ok {
		return SV{}, false
	}
	for i := 0; i < st.NumFields(); i++ {
		if st.Field(i).Name() == name {
			return env.readLoc(PtrV{Base: loc.Base, Root: loc.Root, Path: append(append([]int(nil), loc.Path...), i)}), true
		}
	}
	// ghost field?
	if gf := env.ex.g.ghosts[shortPkg(namedKey(t))+"."+name]; gf != nil {
		return env.readGhost(gf, loc, t), true
	}
	// embedded
	for i := 0; i < st.NumFields(); i++ {
		if !st.Field(i).Embedded() {
			continue
		}
		sub := env.readLoc(PtrV{Base: loc.Base, Root: loc.Root, Path: append(append([]int(nil), loc.Path...), i)})
		if r, ok := env.trySel(sub, name); ok {
			return r, true
		}
	}
	return SV{}, false
}

// readLoc reads the value at a location: struct -> location; leaf -> value.
func (env *Env) readLoc(p PtrV) SV {
	t := p.elemType()
	if mk := modelKind(t); mk == "syncmap" {
		return SV{V: SyncMapLoc{p.Base, p.Root, p.Path}, T: t}
	} else if mk == "bytesbuf" {
		return SV{V: p, T: t, Loc: true}
	}
	if _, ok := t.Underlying().(*types.Struct); ok && modelKind(t) == "" {
		return SV{V: p, T: t, Loc: true}
	}
	so := sortOf(t)
	name := leafHeapName(p.Root, p.Path)
	arr := env.heap(name, SArray(SRef, so))
	v := Select(arr, p.Base)
	if env.qdepth == 0 && env.alias == nil && (so == SRef || so == SSlice || so == SIface || so == SStr) {
		env.ex.assumeWF(env.s, v, t)
	}
	if pt, ok := t.Underlying().(*types.Pointer); ok {
		return SV{V: PtrV{Base: v, Root: pt.Elem()}, T: t}
	}
	return SV{V: Scalar{v}, T: t}
}

func ghostHeapName(gf *GhostField) string {
	return "|GH:" + gf.Owner + ":" + gf.Name + "|"
}

func (env *Env) ghostSorts(gf *GhostField) (isMap bool, ks, vs Sort, scalar Sort, vt types.Type) {
	if gf.Type.Kind == "map" {
		kt := env.resolveType(gf.Type.Key)
		ks = sortOf(kt)
		if gf.Type.Elem.Kind == "name" && gf.Type.Elem.Name == "bool" && gf.Type.Elem.Pkg == "" {
			return true, ks, "", "", nil
		}
		vt = env.resolveType(gf.Type.Elem)
		return true, ks, sortOf(vt), "", vt
	}
	vt = env.resolveType(gf.Type)
	return false, "", "", sortOf(vt), vt
}

func (env *Env) readGhost(gf *GhostField, loc PtrV, owner types.Type) SV {
	if len(loc.Path) != 0 {
		env.fail("ghost field on embedded location unsupported")
	}
	isMap, ks, vs, sc, vt := env.ghostSorts(gf)
	n := ghostHeapName(gf)
	if !isMap {
		arr := env.heap(n, SArray(SRef, sc))
		v := Select(arr, loc.Base)
		if pt, ok := vt.Underlying().(*types.Pointer); ok {
			return SV{V: PtrV{Base: v, Root: pt.Elem()}, T: vt}
		}
		return SV{V: Scalar{v}, T: vt}
	}
	dn := strings.TrimSuffix(n, "|") + "#dom|"
	dom := Select(env.heap(dn, SArray(SRef, SArray(ks, SBool))), loc.Base)
	if vs == "" {
		return SV{V: MathMap{Dom: dom}}
	}
	vn := strings.TrimSuffix(n, "|") + "#val|"
	val := Select(env.heap(vn, SArray(SRef, SArray(ks, vs))), loc.Base)
	return SV{V: MathMap{Dom: dom, Val: &val}, T: vt}
}

// ---- indexing ---------------------------------------------------------------------

func (env *Env) evalIndex(e *E) SV {
	a := env.eval(e.Args[0])
	if mm, ok := a.V.(MathMap); ok {
		k := env.eval(e.Args[1])
		ks, _ := splitArraySort(mm.Dom.Sort)
		kt := env.coerce(k, ks)
		if mm.Val == nil {
			d := Select(mm.Dom, kt)
			env.notePattern(kt, d)
			return SV{V: Scalar{d}, T: types.Typ[types.Bool]}
		}
		v := Select(*mm.Val, kt)
		env.notePattern(kt, v)
		if a.T != nil {
			if pt, ok := a.T.Underlying().(*types.Pointer); ok {
				return SV{V: PtrV{Base: v, Root: pt.Elem()}, T: a.T}
			}
		}
		return SV{V: Scalar{v}, T: a.T}
	}
	if a.T == nil {
		env.fail("index on untyped value")
	}
	switch u := a.T.Underlying().(type) {
	case *types.Slice:
		at := env.term(a)
		i := env.asBV(env.eval(e.Args[1]), 64)
		es := sortOf(u.Elem())
		m := env.heap(memName(es), SArray(SRef, SArray(SBV(64), es)))
		v := Select(Select(m, SlBase(at)), BVAdd(SlOff(at), i))
		if env.pats != nil && env.qnames[i.S] {
			*env.pats = append(*env.pats, v.S)
		}
		if pt, ok := u.Elem().Underlying().(*types.Pointer); ok {
			return SV{V: PtrV{Base: v, Root: pt.Elem()}, T: u.Elem()}
		}
		return SV{V: Scalar{v}, T: u.Elem()}
	case *types.Basic:
		if u.Info()&types.IsString != 0 {
			i := env.asBV(env.eval(e.Args[1]), 64)
			v := StrAt(env.term(a), i)
			if env.pats != nil && env.qnames[i.S] {
				*env.pats = append(*env.pats, v.S)
			}
			return SV{V: Scalar{v}, T: types.Typ[types.Uint8]}
		}
	case *types.Map:
		m := env.term(a)
		k := env.coerce(env.eval(e.Args[1]), sortOf(u.Key()))
		_, vn := mapHeapNames(u)
		vs := sortOf(u.Elem())
		val := env.heap(vn, SArray(SRef, SArray(sortOf(u.Key()), vs)))
		v := Select(Select(val, m), k)
		env.notePattern(k, v)
		if pt, ok := u.Elem().Underlying().(*types.Pointer); ok {
			return SV{V: PtrV{Base: v, Root: pt.Elem()}, T: u.Elem()}
		}
		return SV{V: Scalar{v}, T: u.Elem()}
	}
	env.fail("cannot index %s", a.T)
	return SV{}
}

// notePattern records read as a trigger candidate of the innermost
// quantifier when it is indexed exactly by one of its bound variables.
func (env *Env) notePattern(idx Term, read Term) {
	if env.pats != nil && env.qnames[idx.S] && strings.HasPrefix(read.S, "(select ") {
		*env.pats = append(*env.pats, read.S)
	}
}

func (env *Env) evalIn(k SV, m SV) Term {
	if mm, ok := m.V.(MathMap); ok {
		ks, _ := splitArraySort(mm.Dom.Sort)
		kt := env.coerce(k, ks)
		d := Select(mm.Dom, kt)
		env.notePattern(kt, d)
		return d
	}
	if sm, ok := m.V.(SyncMapLoc); ok {
		n := strings.TrimSuffix(leafHeapName(sm.Root, sm.Path), "|") + "#dom|"
		dom := env.heap(n, SArray(SRef, SArray(SIface, SBool)))
		kt := env.coerce(k, SIface)
		d := Select(Select(dom, sm.Base), kt)
		env.notePattern(kt, d)
		return d
	}
	if m.T != nil {
		if u, ok := m.T.Underlying().(*types.Map); ok {
			mt := env.term(m)
			dn, _ := mapHeapNames(u)
			dom := env.heap(dn, SArray(SRef, SArray(sortOf(u.Key()), SBool)))
			kt := env.coerce(k, sortOf(u.Key()))
			d := Select(Select(dom, mt), kt)
			env.notePattern(kt, d)
			return And(Not(Eq(mt, TNilR)), d)
		}
	}
	env.fail("'in' on non-map")
	return Term{}
}

// coerce converts a spec value to a term of the wanted sort (untyped
// constants adopt the sort).
func (env *Env) coerce(v SV, so Sort) Term {
	if v.U != nil {
		if so.IsBV() {
			return BVLitBig(v.U, so.Width())
		}
		if so == SRef {
			return IntLit(v.U.Int64())
		}
		env.fail("untyped constant for sort %s", so)
	}
	if v.IsNil {
		switch so {
		case SRef:
			return TNilR
		case SIface:
			return TNilI
		case SSlice:
			return TNilS
		}
		env.fail("nil for sort %s", so)
	}
	t := env.term(v)
	if t.Sort != so {
		env.fail("sort mismatch: have %s want %s (%s)", t.Sort, so, t.S)
	}
	return t
}

func (env *Env) asBV(v SV, w int) Term {
	if v.U != nil {
		return BVLitBig(v.U, w)
	}
	t := env.term(v)
	if !t.Sort.IsBV() {
		env.fail("expected integer, got %s", t.Sort)
	}
	return BVConv(t, w, v.T != nil && !isUnsigned(v.T))
}

func (env *Env) convert(x SV, to types.Type) SV {
	so := sortOf(to)
	if x.U != nil {
		if so.IsBV() {
			return SV{V: Scalar{BVLitBig(x.U, so.Width())}, T: to}
		}
		env.fail("convert constant to %s", to)
	}
	t := env.term(x)
	switch {
	case t.Sort.IsBV() && so.IsBV():
		return SV{V: Scalar{BVConv(t, so.Width(), x.T != nil && !isUnsigned(x.T))}, T: to}
	case t.Sort == SSlice && so == SStr:
		if env.qdepth > 0 || env.alias != nil {
			env.fail("string(bytes) under quantifier")
		}
		return SV{V: Scalar{env.ex.bytesToStr(env.s, t)}, T: to}
	case t.Sort == so:
		return SV{V: x.V, T: to}
	}
	env.fail("cannot convert %s to %s", t.Sort, to)
	return SV{}
}

// ---- binary operators ----------------------------------------------------------------

var tokOf = map[string]token.Token{"+": token.ADD, "-": token.SUB, "*": token.MUL, "/": token.QUO, "%": token.REM,
	"&": token.AND, "|": token.OR, "^": token.XOR, "<<": token.SHL, ">>": token.SHR, "&^": token.AND_NOT,
	"==": token.EQL, "!=": token.NEQ, "<": token.LSS, "<=": token.LEQ, ">": token.GTR, ">=": token.GEQ}

func (env *Env) evalBin(e *E) SV {
	boolT := types.Typ[types.Bool]
	switch e.Name {
	case "==>":
		a := env.ex.evalBool(env, e.Args[0])
		b := env.ex.evalBool(env, e.Args[1])
		return SV{V: Scalar{Implies(a, b)}, T: boolT}
	case "<==>":
		a := env.ex.evalBool(env, e.Args[0])
		b := env.ex.evalBool(env, e.Args[1])
		return SV{V: Scalar{Eq(a, b)}, T: boolT}
	case "&&":
		a := env.ex.evalBool(env, e.Args[0])
		b := env.ex.evalBool(env, e.Args[1])
		return SV{V: Scalar{And(a, b)}, T: boolT}
	case "||":
		a := env.ex.evalBool(env, e.Args[0])
		b := env.ex.evalBool(env, e.Args[1])
		return SV{V: Scalar{Or(a, b)}, T: boolT}
	case "in":
		return SV{V: Scalar{env.evalIn(env.eval(e.Args[0]), env.eval(e.Args[1]))}, T: boolT}
	}
	x := env.eval(e.Args[0])
	y := env.eval(e.Args[1])
	op := tokOf[e.Name]
	isCmp := op == token.EQL || op == token.NEQ || op == token.LSS || op == token.LEQ || op == token.GTR || op == token.GEQ
	// both untyped
	if x.U != nil && y.U != nil {
		if isCmp {
			c := x.U.Cmp(y.U)
			r := map[token.Token]bool{token.EQL: c == 0, token.NEQ: c != 0, token.LSS: c < 0, token.LEQ: c <= 0, token.GTR: c > 0, token.GEQ: c >= 0}[op]
			if r {
				return SV{V: Scalar{TTrue}, T: boolT}
			}
			return SV{V: Scalar{TFalse}, T: boolT}
		}
		z := new(big.Int)
		switch op {
		case token.ADD:
			z.Add(x.U, y.U)
		case token.SUB:
			z.Sub(x.U, y.U)
		case token.MUL:
			z.Mul(x.U, y.U)
		case token.SHL:
			z.Lsh(x.U, uint(y.U.Int64()))
		case token.QUO:
			z.Quo(x.U, y.U)
		case token.REM:
			z.Rem(x.U, y.U)
		case token.OR:
			z.Or(x.U, y.U)
		case token.AND:
			z.And(x.U, y.U)
		default:
			env.fail("constant op %s", e.Name)
		}
		return SV{U: z}
	}
	// math maps
	if mx, ok := x.V.(MathMap); ok {
		my, ok2 := y.V.(MathMap)
		if !ok2 || !(op == token.EQL || op == token.NEQ) {
			env.fail("bad operation on ghost map")
		}
		eq := Eq(mx.Dom, my.Dom)
		if mx.Val != nil {
			eq = And(eq, Eq(*mx.Val, *my.Val))
		}
		if op == token.NEQ {
			eq = Not(eq)
		}
		return SV{V: Scalar{eq}, T: boolT}
	}
	// nil comparisons / sort adoption
	var xt, yt Term
	switch {
	case x.U != nil || x.IsNil:
		yt = env.term(y)
		xt = env.coerce(x, yt.Sort)
		x.T = y.T
	case y.U != nil || y.IsNil:
		xt = env.term(x)
		if op == token.SHL || op == token.SHR {
			yt = BVLitBig(y.U, xt.Sort.Width())
			y.T = types.Typ[types.Uint64]
		} else {
			yt = env.coerce(y, xt.Sort)
			y.T = x.T
		}
	default:
		xt, yt = env.term(x), env.term(y)
	}
	if xt.Sort == SStr && (op == token.EQL || op == token.NEQ) {
		var eq Term
		if env.qdepth > 0 || env.alias != nil {
			eq = Eq(xt, yt)
		} else {
			eq = env.ex.strEq(env.s, xt, yt)
		}
		if op == token.NEQ {
			eq = Not(eq)
		}
		return SV{V: Scalar{eq}, T: boolT}
	}
	if xt.Sort.IsBV() && yt.Sort.IsBV() && xt.Sort != yt.Sort && op != token.SHL && op != token.SHR {
		env.fail("operand widths differ in %q: %s vs %s", e.Name, xt.Sort, yt.Sort)
	}
	tx := x.T
	if tx == nil {
		tx = types.Typ[types.Int]
	}
	ty := y.T
	if ty == nil {
		ty = types.Typ[types.Uint64]
	}
	r := env.ex.binop(env.s, op, xt, yt, tx, ty, nil)
	if isCmp {
		return SV{V: Scalar{r}, T: boolT}
	}
	return SV{V: Scalar{r}, T: x.T}
}

// ---- calls --------------------------------------------------------------------------

func (env *Env) evalCall(e *E) SV {
	callee := e.Args[0]
	args := e.Args[1:]
	boolT := types.Typ[types.Bool]
	ex := env.ex
	if callee.Op == "id" {
		switch callee.Name {
		case "old":
			sub := *env
			sub.inOld = true
			return sub.eval(args[0])
		case "arg":
			i := int(env.eval(args[0]).U.Int64())
			if i >= len(env.s.CurArgs) {
				env.fail("arg(%d): call has %d arguments", i, len(env.s.CurArgs))
			}
			return env.s.CurArgs[i]
		case "ret":
			if env.s.CurRet == nil {
				env.fail("ret: no call result here")
			}
			return *env.s.CurRet
		case "retn":
			// i-th component of a multi-value call result
			if env.s.CurRet == nil {
				env.fail("retn: no call result here")
			}
			tv, ok := env.s.CurRet.V.(TupleV)
			i := int(env.eval(args[0]).U.Int64())
			tt, ok2 := env.s.CurRet.T.(*types.Tuple)
			if !ok || !ok2 || i >= len(tv) {
				env.fail("retn(%d): result is not a tuple of that size", i)
			}
			return SV{V: tv[i], T: tt.At(i).Type()}
		case "inRange":
			// (k, v) is an entry of the map a Range closure runs over
			k := env.coerce(env.eval(args[0]), SIface)
			v := env.coerce(env.eval(args[1]), SIface)
			if env.rng != nil {
				return SV{V: Scalar{And(Select(env.rng.dom, k), Eq(Select(env.rng.val, k), v))}, T: boolT}
			}
			return SV{V: Scalar{Term{fmt.Sprintf("(inrange %s %s)", k.S, v.S), SBool}}, T: boolT}
		case "soff":
			// absolute offset of a slice in its backing store
			return SV{V: Scalar{SlOff(env.term(env.eval(args[0])))}, T: types.Typ[types.Int]}
		case "absat":
			// element at absolute position p of the slice's backing store
			a := env.eval(args[0])
			at := env.term(a)
			et := a.T.Underlying().(*types.Slice).Elem()
			es := sortOf(et)
			p := env.asBV(env.eval(args[1]), 64)
			m := env.heap(memName(es), SArray(SRef, SArray(SBV(64), es)))
			v := Select(Select(m, SlBase(at)), p)
			if env.pats != nil && env.qnames[p.S] {
				*env.pats = append(*env.pats, v.S)
			}
			return SV{V: Scalar{v}, T: et}
		case "deref":
			p := env.eval(args[0])
			pv, ok := p.V.(PtrV)
			if !ok {
				env.fail("deref of non-pointer")
			}
			return env.readLoc(pv)
		case "sameSlice":
			a, b := env.term(env.eval(args[0])), env.term(env.eval(args[1]))
			return SV{V: Scalar{And(Eq(SlBase(a), SlBase(b)), Eq(SlOff(a), SlOff(b)), Eq(SlLen(a), SlLen(b)))}, T: boolT}
		case "len":
			x := env.eval(args[0])
			t := env.term(x)
			switch t.Sort {
			case SSlice:
				return SV{V: Scalar{SlLen(t)}, T: types.Typ[types.Int]}
			case SStr:
				return SV{V: Scalar{StrLen(t)}, T: types.Typ[types.Int]}
			}
			env.fail("len of %s", t.Sort)
		case "cap":
			t := env.term(env.eval(args[0]))
			return SV{V: Scalar{SlCap(t)}, T: types.Typ[types.Int]}
		case "ite":
			c := ex.evalBool(env, args[0])
			a, b := env.eval(args[1]), env.eval(args[2])
			var at, bt Term
			if a.U != nil && b.U == nil {
				bt = env.term(b)
				at = env.coerce(a, bt.Sort)
				a.T = b.T
			} else if b.U != nil && a.U == nil {
				at = env.term(a)
				bt = env.coerce(b, at.Sort)
			} else {
				at, bt = env.term(a), env.term(b)
			}
			if pa, ok := a.V.(PtrV); ok && !a.Loc {
				return SV{V: PtrV{Base: Ite(c, at, bt), Root: pa.Root}, T: a.T}
			}
			return SV{V: Scalar{Ite(c, at, bt)}, T: a.T}
		case "fresh":
			t := env.term(env.eval(args[0]))
			if t.Sort == SIface {
				t = IRef(t)
			}
			if t.Sort == SSlice {
				t = SlBase(t)
			}
			return SV{V: Scalar{And(IntLe(env.freshLo, t), IntLt(t, env.freshHi))}, T: boolT}
		case "istype":
			t := env.term(env.eval(args[0]))
			ty := env.eval(args[1])
			if ty.TypeV == nil {
				env.fail("istype: second argument must be a type")
			}
			return SV{V: Scalar{ex.hasTypeCond(t, ty.TypeV)}, T: boolT}
		case "tagof":
			t := env.term(env.eval(args[0]))
			return SV{V: Scalar{ITag(t)}, T: nil}
		case "typetag":
			ty := env.eval(args[0])
			return SV{V: Scalar{IntLit(int64(ex.g.tags.tag(ty.TypeV)))}}
		case "box":
			// box(T, v): interface value holding v with dynamic type T
			ty := env.eval(args[0])
			v := env.eval(args[1])
			if v.U != nil {
				v = env.convert(v, ty.TypeV)
			}
			return SV{V: Scalar{ex.makeIface(env.s, ty.TypeV, v.V)}, T: types.NewInterfaceType(nil, nil)}
		case "sepCount":
			// number of separators bytes.Split finds in its argument (A-SPLIT)
			a := env.term(env.eval(args[0]))
			return SV{V: Scalar{App(SBV(64), "sep_count", a)}, T: types.Typ[types.Int]}
		case "connClosed":
			// ghost: Close has been called on the net.Conn held by the interface value
			c := env.term(env.eval(args[0]))
			arr := env.heap("|Conn:closed|", SArray(SRef, SBool))
			return SV{V: Scalar{Select(arr, IRef(c))}, T: boolT}
		case "waited":
			// ghost: errgroup.Group.Wait has been called on the group
			gr := env.term(env.eval(args[0]))
			arr := env.heap("|Group:waited|", SArray(SRef, SBool))
			return SV{V: Scalar{Select(arr, gr)}, T: boolT}
		case "bound":
			// bound(x): the path has reached the call site at which the site-level let x is bound
			if len(args) != 1 || args[0].Op != "id" {
				env.fail("bound(name) expects a site-let name")
			}
			if _, ok := env.s.Lets[args[0].Name]; ok {
				return SV{V: Scalar{TTrue}, T: boolT}
			}
			return SV{V: Scalar{TFalse}, T: boolT}
		case "flagBool", "flagIsSet":
			// value / presence of a command-line flag (urfave/cli Context, modelled as functions of context and flag name)
			c, n := env.term(env.eval(args[0])), env.term(env.eval(args[1]))
			f := map[string]string{"flagBool": "flag_bool", "flagIsSet": "flag_set"}[callee.Name]
			return SV{V: Scalar{Term{fmt.Sprintf("(%s %s %s)", f, c.S, n.S), SBool}}, T: boolT}
		case "flagString":
			c, n := env.term(env.eval(args[0])), env.term(env.eval(args[1]))
			return SV{V: Scalar{Term{fmt.Sprintf("(flag_str %s %s)", c.S, n.S), SStr}}, T: types.Typ[types.String]}
		case "flagStrings":
			c, n := env.term(env.eval(args[0])), env.term(env.eval(args[1]))
			return SV{V: Scalar{Term{fmt.Sprintf("(flag_strs %s %s)", c.S, n.S), SSlice}}, T: types.NewSlice(types.Typ[types.String])}
		case "strJoin":
			// strings.Join(parts, sep) as modelled by the strings.Split / strings.Join intrinsics (A-STRSPLIT)
			a, b := env.term(env.eval(args[0])), env.term(env.eval(args[1]))
			return SV{V: Scalar{Term{fmt.Sprintf("(str_join %s %s)", a.S, b.S), SStr}}, T: types.Typ[types.String]}
		case "bytesEq":
			a, b := env.term(env.eval(args[0])), env.term(env.eval(args[1]))
			return SV{V: Scalar{env.bytesEq(a, b)}, T: boolT}
		case "strBytesEq":
			s, b := env.term(env.eval(args[0])), env.term(env.eval(args[1]))
			return SV{V: Scalar{env.strBytesEq(s, b)}, T: boolT}
		case "emptyset":
			ty := env.eval(args[0])
			if ty.TypeV == nil {
				env.fail("emptyset: argument must be a type")
			}
			ks := sortOf(ty.TypeV)
			return SV{V: MathMap{Dom: Term{fmt.Sprintf("((as const (Array %s Bool)) false)", ks), SArray(ks, SBool)}}}
		case "add":
			m := env.eval(args[0]).V.(MathMap)
			ks, _ := splitArraySort(m.Dom.Sort)
			k := env.coerce(env.eval(args[1]), ks)
			return SV{V: MathMap{Dom: Store(m.Dom, k, TTrue)}}
		case "rem":
			m := env.eval(args[0]).V.(MathMap)
			ks, _ := splitArraySort(m.Dom.Sort)
			k := env.coerce(env.eval(args[1]), ks)
			return SV{V: MathMap{Dom: Store(m.Dom, k, TFalse), Val: m.Val}}
		case "upd":
			mv := env.eval(args[0])
			m := mv.V.(MathMap)
			ks, vs := splitArraySort(m.Val.Sort)
			k := env.coerce(env.eval(args[1]), ks)
			v := env.coerce(env.eval(args[2]), vs)
			nv := Store(*m.Val, k, v)
			return SV{V: MathMap{Dom: Store(m.Dom, k, TTrue), Val: &nv}, T: mv.T}
		case "smGet":
			sm, ok := env.eval(args[0]).V.(SyncMapLoc)
			if !ok {
				env.fail("smGet: not a sync.Map")
			}
			n := strings.TrimSuffix(leafHeapName(sm.Root, sm.Path), "|") + "#val|"
			val := env.heap(n, SArray(SRef, SArray(SIface, SIface)))
			k := env.coerce(env.eval(args[1]), SIface)
			return SV{V: Scalar{Select(Select(val, sm.Base), k)}, T: types.NewInterfaceType(nil, nil)}
		case "closed":
			ch := env.term(env.eval(args[0]))
			arr := env.heap("|Chan:closed|", SArray(SRef, SBool))
			return SV{V: Scalar{Select(arr, ch)}, T: boolT}
		case "calls":
			// ghost: number of times the function value has been invoked
			f := env.term(env.eval(args[0]))
			arr := env.heap("|Fn:calls|", SArray(SRef, SBV(64)))
			return SV{V: Scalar{Select(arr, f)}, T: types.Typ[types.Uint64]}
		case "lastarg":
			f := env.term(env.eval(args[0]))
			arr := env.heap("|Fn:lastarg|", SArray(SRef, SIface))
			return SV{V: Scalar{Select(arr, f)}, T: types.NewInterfaceType(nil, nil)}
		case "armed":
			// ghost: the timer is armed (time.AfterFunc called, not stopped, not fired)
			tm := env.term(env.eval(args[0]))
			arr := env.heap("|Timer:armed|", SArray(SRef, SBool))
			return SV{V: Scalar{And(Not(Eq(tm, TNilR)), Select(arr, tm))}, T: boolT}
		case "armedDelay":
			tm := env.term(env.eval(args[0]))
			arr := env.heap("|Timer:delay|", SArray(SRef, SBV(64)))
			return SV{V: Scalar{Select(arr, tm)}, T: types.Typ[types.Int64]}
		case "timerFn":
			tm := env.term(env.eval(args[0]))
			arr := env.heap("|Timer:fn|", SArray(SRef, SRef))
			return SV{V: Scalar{Select(arr, tm)}}
		}
		// conversion to a named/builtin type?
		if _, isVar := env.vars[callee.Name]; !isVar {
			if sf := ex.g.specs[callee.Name]; sf != nil {
				return env.callSpec(sf, args)
			}
			id := env.evalIdent(callee.Name)
			if id.TypeV != nil {
				return env.convert(env.eval(args[0]), id.TypeV)
			}
		}
	}
	if callee.Op == "sel" {
		// pkg.Type(x) conversion or pkg.specfn
		x := env.eval(callee.Args[0])
		if x.Pkg != nil {
			o := x.Pkg.Scope().Lookup(callee.Name)
			if tn, ok := o.(*types.TypeName); ok {
				return env.convert(env.eval(args[0]), tn.Type())
			}
		}
	}
	env.fail("unsupported call in spec: %v", callee.Name)
	return SV{}
}

func (env *Env) callSpec(sf *SpecFn, args []*E) SV {
	if len(args) != len(sf.Params) {
		env.fail("spec %s: %d args for %d params", sf.Name, len(args), len(sf.Params))
	}
	vars := map[string]SV{}
	// spec functions see only their parameters (and globals)
	for i, p := range sf.Params {
		v := env.eval(args[i])
		if v.U != nil {
			v = env.convert(v, env.resolveType(p.Type))
		}
		vars[p.Name] = v
	}
	sub := env.sub(vars)
	// resolve identifiers in the package where the spec was declared
	if sf.Pkg != "" {
		if sp := env.ex.g.pkgs[repoPrefix+"/"+sf.Pkg]; sp != nil {
			sub.pkg = sp.Pkg
		}
	}
	if sf.Opaque {
		return env.callOpaque(sf, sub, vars)
	}
	r := sub.eval(sf.Body)
	if sf.Ret != nil {
		rt := env.resolveType(sf.Ret)
		if r.U != nil {
			r = env.convert(r, rt)
		} else if sc, ok := r.V.(Scalar); ok && sc.T.Sort.IsBV() && sortOf(rt).IsBV() {
			// results built from untyped constants (ite(c, 1, 2)) adopt the declared type
			r = env.convert(r, rt)
		}
	}
	return r
}

func (env *Env) bytesEq(a, b Term) Term {
	m := env.heap(memName(SBV(8)), SArray(SRef, SArray(SBV(64), SBV(8))))
	i := env.ex.g.fresh("i")
	q := Term{fmt.Sprintf("(forall ((%s (_ BitVec 64))) (=> (bvult %s %s) (= (select (select %s %s) (bvadd %s %s)) (select (select %s %s) (bvadd %s %s)))))",
		i, i, SlLen(a).S, m.S, SlBase(a).S, SlOff(a).S, i, m.S, SlBase(b).S, SlOff(b).S, i), SBool}
	return And(Eq(SlLen(a), SlLen(b)), q)
}

func (env *Env) strBytesEq(s, b Term) Term {
	m := env.heap(memName(SBV(8)), SArray(SRef, SArray(SBV(64), SBV(8))))
	i := env.ex.g.fresh("i")
	q := Term{fmt.Sprintf("(forall ((%s (_ BitVec 64))) (=> (bvult %s %s) (= (sat %s %s) (select (select %s %s) (bvadd %s %s)))))",
		i, i, StrLen(s).S, s.S, i, m.S, SlBase(b).S, SlOff(b).S, i), SBool}
	return And(Eq(StrLen(s), SlLen(b)), q)
}
