package main

// Modular reasoning: applying callee contracts at call sites, checking the
// postcondition and frame of the function under verification, loop
// invariants, ghost statements.

import (
	"fmt"
	"go/types"
	"regexp"
	"sort"
	"strings"

	"golang.org/x/tools/go/ssa"
)

// ---- locations (assigns / ghost statements) -----------------------------------

type Loc struct {
	Kind string // field ghost mem map syncmap chan
	P    PtrV
	GF   *GhostField
	Base Term
	MapT *types.Map
	Elem Sort
}

func (env *Env) evalLoc(e *E) Loc {
	if !env.locMode {
		sub := *env
		sub.locMode = true
		return sub.evalLoc(e)
	}
	switch e.Op {
	case "id":
		// a captured variable of a closure: its cell
		if c, ok := env.vars["&"+e.Name]; ok {
			if pv, ok := c.V.(PtrV); ok {
				return Loc{Kind: "field", P: pv}
			}
		}
		env.fail("%s is not an assignable captured variable", e.Name)
	case "sel":
		x := env.eval(e.Args[0])
		loc, t, ok := env.structLoc(x)
		if !ok {
			env.fail("assigns: %s is not a struct location", e.Args[0].Name)
		}
		return env.fieldLoc(loc, t, e.Name)
	case "call":
		if e.Args[0].Op == "id" {
			switch e.Args[0].Name {
			case "mem":
				sl := env.eval(e.Args[1])
				t := env.term(sl)
				es := sortOf(sl.T.Underlying().(*types.Slice).Elem())
				return Loc{Kind: "mem", Base: SlBase(t), Elem: es}
			case "map":
				m := env.eval(e.Args[1])
				return Loc{Kind: "map", Base: env.term(m), MapT: m.T.Underlying().(*types.Map)}
			case "closed":
				return Loc{Kind: "chan", Base: env.term(env.eval(e.Args[1]))}
			case "anycalls":
				// the ghost call counters of every function value (a callee that invokes a callback chosen at run time)
				return Loc{Kind: "allfncalls"}
			case "calls":
				return Loc{Kind: "fncalls", Base: env.term(env.eval(e.Args[1]))}
			case "armed":
				return Loc{Kind: "timer", Base: env.term(env.eval(e.Args[1]))}
			case "deref":
				p := env.eval(e.Args[1])
				pv, ok := p.V.(PtrV)
				if !ok {
					env.fail("deref of non-pointer")
				}
				return Loc{Kind: "field", P: pv}
			case "old":
				sub := *env
				sub.inOld = true
				return sub.evalLoc(e.Args[1])
			}
		}
	}
	env.fail("unsupported location expression")
	return Loc{}
}

func (env *Env) fieldLoc(loc PtrV, t types.Type, name string) Loc {
	st, ok := t.Underlying().(*types.Struct)
	if !ok {
		env.fail("fieldLoc: not a struct: %s", t)
	}
	for i := 0; i < st.NumFields(); i++ {
		if st.Field(i).Name() == name {
			p := PtrV{Base: loc.Base, Root: loc.Root, Path: append(append([]int(nil), loc.Path...), i)}
			if modelKind(st.Field(i).Type()) == "syncmap" {
				return Loc{Kind: "syncmap", P: p}
			}
			return Loc{Kind: "field", P: p}
		}
	}
	if gf := env.ex.g.ghosts[shortPkg(namedKey(t))+"."+name]; gf != nil {
		if len(loc.Path) != 0 {
			env.fail("ghost field on embedded location")
		}
		return Loc{Kind: "ghost", GF: gf, Base: loc.Base}
	}
	for i := 0; i < st.NumFields(); i++ {
		if !st.Field(i).Embedded() {
			continue
		}
		sub := env.readLoc(PtrV{Base: loc.Base, Root: loc.Root, Path: append(append([]int(nil), loc.Path...), i)})
		if l2, t2, ok := env.structLoc(sub); ok {
			if _, isSt := t2.Underlying().(*types.Struct); isSt && hasFieldDeep(env, t2, name) {
				return env.fieldLoc(l2, t2, name)
			}
		}
	}
	env.fail("no field %s in %s", name, t)
	return Loc{}
}

func hasFieldDeep(env *Env, t types.Type, name string) bool {
	st, ok := t.Underlying().(*types.Struct)
	if !ok {
		return false
	}
	for i := 0; i < st.NumFields(); i++ {
		if st.Field(i).Name() == name {
			return true
		}
	}
	if env.ex.g.ghosts[shortPkg(namedKey(t))+"."+name] != nil {
		return true
	}
	for i := 0; i < st.NumFields(); i++ {
		if st.Field(i).Embedded() {
			ft := st.Field(i).Type()
			if p, ok := ft.Underlying().(*types.Pointer); ok {
				ft = p.Elem()
			}
			if hasFieldDeep(env, ft, name) {
				return true
			}
		}
	}
	return false
}

// heapNames returns the heap arrays (with the base at which they are
// touched) that a location covers.
type heapTarget struct {
	Name  string
	Sort  Sort // sort of the array value (per object)
	Base  Term
	Whole bool // every index of the array, not only Base
}

func (env *Env) locTargets(l Loc) []heapTarget {
	var out []heapTarget
	switch l.Kind {
	case "field":
		t := l.P.elemType()
		for _, lf := range leavesOf(t) {
			path := append(append([]int(nil), l.P.Path...), lf.Path...)
			so := sortOf(lf.Typ)
			n := leafHeapName(l.P.Root, path)
			switch so {
			case "SyncMap":
				out = append(out, heapTarget{strings.TrimSuffix(n, "|") + "#dom|", SArray(SIface, SBool), l.P.Base, false},
					heapTarget{strings.TrimSuffix(n, "|") + "#val|", SArray(SIface, SIface), l.P.Base, false})
			case "BytesBuf":
				out = append(out, heapTarget{strings.TrimSuffix(n, "|") + "#base|", SRef, l.P.Base, false},
					heapTarget{strings.TrimSuffix(n, "|") + "#off|", SBV(64), l.P.Base, false},
					heapTarget{strings.TrimSuffix(n, "|") + "#len|", SBV(64), l.P.Base, false})
			default:
				out = append(out, heapTarget{n, so, l.P.Base, false})
			}
		}
	case "syncmap":
		n := leafHeapName(l.P.Root, l.P.Path)
		out = append(out, heapTarget{strings.TrimSuffix(n, "|") + "#dom|", SArray(SIface, SBool), l.P.Base, false},
			heapTarget{strings.TrimSuffix(n, "|") + "#val|", SArray(SIface, SIface), l.P.Base, false})
	case "ghost":
		isMap, ks, vs, sc, _ := env.ghostSorts(l.GF)
		n := ghostHeapName(l.GF)
		if !isMap {
			out = append(out, heapTarget{n, sc, l.Base, false})
		} else {
			out = append(out, heapTarget{strings.TrimSuffix(n, "|") + "#dom|", SArray(ks, SBool), l.Base, false})
			if vs != "" {
				out = append(out, heapTarget{strings.TrimSuffix(n, "|") + "#val|", SArray(ks, vs), l.Base, false})
			}
		}
	case "mem":
		out = append(out, heapTarget{memName(l.Elem), SArray(SBV(64), l.Elem), l.Base, false})
	case "map":
		dn, vn := mapHeapNames(l.MapT)
		out = append(out, heapTarget{dn, SArray(sortOf(l.MapT.Key()), SBool), l.Base, false},
			heapTarget{vn, SArray(sortOf(l.MapT.Key()), sortOf(l.MapT.Elem())), l.Base, false})
	case "chan":
		out = append(out, heapTarget{"|Chan:closed|", SBool, l.Base, false})
	case "fncalls":
		out = append(out, heapTarget{"|Fn:calls|", SBV(64), l.Base, false}, heapTarget{"|Fn:lastarg|", SIface, l.Base, false})
	case "allfncalls":
		// Whole: the entire array is havocked at a call site (Base unused)
		out = append(out, heapTarget{Name: "|Fn:calls|", Sort: SBV(64), Whole: true}, heapTarget{Name: "|Fn:lastarg|", Sort: SIface, Whole: true})
	case "timer":
		out = append(out, heapTarget{"|Timer:armed|", SBool, l.Base, false})
	}
	return out
}

// storeLocValue writes a spec value to a location (ghost statements).
func (env *Env) storeLocValue(l Loc, v SV) {
	s := env.s
	switch l.Kind {
	case "ghost":
		ts := env.locTargets(l)
		if mm, ok := v.V.(MathMap); ok {
			arr := s.heapCur(ts[0].Name, SArray(SRef, ts[0].Sort))
			s.heapSet(ts[0].Name, Store(arr, l.Base, mm.Dom))
			if mm.Val != nil {
				arr2 := s.heapCur(ts[1].Name, SArray(SRef, ts[1].Sort))
				s.heapSet(ts[1].Name, Store(arr2, l.Base, *mm.Val))
			}
			return
		}
		arr := s.heapCur(ts[0].Name, SArray(SRef, ts[0].Sort))
		s.heapSet(ts[0].Name, Store(arr, l.Base, env.coerce(v, ts[0].Sort)))
	case "field":
		ts := env.locTargets(l)
		if len(ts) != 1 {
			env.fail("ghost store to struct field")
		}
		arr := s.heapCur(ts[0].Name, SArray(SRef, ts[0].Sort))
		s.heapSet(ts[0].Name, Store(arr, l.P.Base, env.coerce(v, ts[0].Sort)))
	default:
		env.fail("ghost store to %s location", l.Kind)
	}
}

// ---- applying a contract at a call site ------------------------------------------

func (ex *Exec) applyContract(s *State, instr ssa.Instruction, f *ssa.Function, con *Contract, res ssa.Value, args []Val, stay bool) []*State {
	site := ex.siteName(instr, f.Name())
	fr := s.top()
	where := ex.key + "@" + site
	vars := map[string]SV{}
	if len(args) != len(f.Params) {
		ex.fail("contract %s: %d args for %d params", con.Key, len(args), len(f.Params))
	}
	for i, p := range f.Params {
		vars[p.Name()] = SV{V: args[i], T: p.Type()}
	}
	env := &Env{ex: ex, s: s, vars: vars, pkg: ex.pkgOf(f), where: where}
	ex.bindLets(env, con)
	// implicit precondition: non-nil pointer receiver
	if f.Signature.Recv() != nil && len(args) > 0 {
		if p, ok := args[0].(PtrV); ok {
			ex.nilCheck(s, instr, p.Base)
		}
	}
	// preconditions
	for _, r := range con.Requires {
		goal := ex.evalBool(env, r.Expr)
		name := fmt.Sprintf("%s#pre.%s.%s", ex.key, site, r.Label)
		if !fr.IsRoot {
			name = fmt.Sprintf("%s#pre.in.%s.%s.%s", ex.key, funcKey(fr.Fn), site, r.Label)
		}
		ex.oblige(s, name, "pre", instr.Pos(), r.Tags, goal, "precondition of "+con.Key+": "+r.Src)
	}
	// invariants of timer callbacks: the callee preserves them (its own
	// `stable` obligations), so the caller may rely on that
	stabBefore := ex.stabSnapshot(s)
	// snapshot, havoc assigns
	snap := make(map[string]Term, len(s.Heap))
	for k, v := range s.Heap {
		snap[k] = v
	}
	lo := ex.allocFrontier(s)
	s.Alloc += 8
	hi := ex.allocFrontier(s)
	if con.AssignsAny {
		var names []string
		for k := range s.Heap {
			names = append(names, k)
		}
		sort.Strings(names)
		for _, n := range names {
			s.heapSet(n, s.declare(ex.g.fresh("hv"), s.Heap[n].Sort))
		}
		ex.usedAssume["assigns * on "+con.Key+": heap arrays not yet touched on the path are assumed unchanged"] = true
	}
	// every location of the assigns clause denotes a location of the state at
	// the call (`assigns t.timer, armed(t.timer)`: the timer held before the
	// call): evaluate them all before anything is havocked
	var assignTargets []heapTarget
	for _, a := range con.Assigns {
		loc := env.evalLoc(a.Expr)
		assignTargets = append(assignTargets, env.locTargets(loc)...)
	}
	for range []int{0} {
		for _, t := range assignTargets {
			arr := s.heapCur(t.Name, SArray(SRef, t.Sort))
			if t.Whole {
				s.heapSet(t.Name, s.declare(ex.g.fresh("hv"), SArray(SRef, t.Sort)))
				continue
			}
			nv := s.declare(ex.g.fresh("hv"), t.Sort)
			// whatever the callee stored refers to objects that exist when it returns
			switch t.Sort {
			case SRef:
				s.assume(IntLt(nv, ex.allocFrontier(s)))
			case SSlice, SIface, SStr:
				ex.assumeWF(s, nv, nil)
			}
			s.heapSet(t.Name, Store(arr, t.Base, nv))
		}
	}
	// results
	var results []Val
	rs := f.Signature.Results()
	for i := 0; i < rs.Len(); i++ {
		results = append(results, ex.freshVal(s, rs.At(i).Type(), "r_"+f.Name()))
	}
	env2 := &Env{ex: ex, s: s, vars: vars, oldHeap: snap, pkg: env.pkg, where: where, freshLo: lo, freshHi: hi}
	ex.bindResults(env2, f, results)
	ex.bindLets(env2, con)
	calleeLets := map[string]bool{}
	for _, g := range con.Ghost {
		if g.Kind == "let" {
			calleeLets[g.Name] = true
		}
	}
	for _, e := range con.Ensures {
		if len(calleeLets) > 0 && mentionsAny(e.Expr, calleeLets) {
			// clause about a value internal to the callee (captured at one
			// of its call sites): not usable by callers
			continue
		}
		s.assume(ex.evalBool(env2, e.Expr))
	}
	if con.Trusted {
		ex.usedTrusted["contract (trusted, body not verified): "+con.Key] = true
	}
	var rv Val
	switch len(results) {
	case 0:
	case 1:
		rv = results[0]
	default:
		rv = TupleV(results)
	}
	ex.stabAssumePreserved(s, stabBefore)
	ex.finishCall(s, instr, res, stay, rv)
	return nil
}

// ---- postcondition and frame of the function under verification ---------------

func (ex *Exec) checkPost(s *State, ret *ssa.Return, results []Val) {
	ex.retCount++
	if ex.con == nil {
		return
	}
	env := ex.rootEnv(s, results)
	// ghost statements at return
	ex.runGhost(s, "return", "after", results)
	env = ex.rootEnv(s, results)
	retOrd := ex.ordinal(ret, "return")
	// vacuity guard: some return of the function must be reachable under the
	// precondition (individual returns may be dead defensive code)
	// Every return site must be reachable (a proof about an unreachable
	// branch is vacuous) unless the contract declares it dead (`deadreturn N`:
	// defensive code such as error returns of callees that never fail).
	if !ex.con.DeadReturns[retOrd] {
		ex.cover(s, fmt.Sprintf("%s#cover.return.%d", ex.key, retOrd), ex.con.AllTags(), ret.Pos())
	}
	ex.stabCheck(s, ret.Pos(), "at return")
	for _, e := range ex.con.Ensures {
		if ex.mentionsUnboundSiteLet(s, e.Expr) {
			// the clause talks about a value captured at a call site that
			// this path did not reach: nothing to check on this path
			continue
		}
		goal := ex.evalBool(env, e.Expr)
		ex.oblige(s, fmt.Sprintf("%s#post.%s", ex.key, e.Label), "post", ret.Pos(), e.Tags, goal, e.Src)
		if n := len(ex.obls); n > 0 && ex.obls[n-1].Kind == "post" {
			ex.obls[n-1].Results = results
		}
	}
	for _, e := range ex.con.Invariants {
		ex.oblige(s, fmt.Sprintf("%s#post.inv.%s", ex.key, e.Label), "post", ret.Pos(), e.Tags, ex.evalBool(env, e.Expr), e.Src)
	}
	// every mutex taken by this call has been released
	if len(ex.con.Guards) > 0 {
		var keys []string
		for k := range s.Ghost {
			if strings.HasPrefix(k, "lock:") {
				keys = append(keys, k)
			}
		}
		sort.Strings(keys)
		for _, k := range keys {
			ex.oblige(s, fmt.Sprintf("%s#lock.released", ex.key), "lock", ret.Pos(), ex.con.Guards[0].Tags, Eq(s.Ghost[k], IntLit(0)), "mutex released on return")
		}
	}
	if ex.con.AssignsAny {
		return
	}
	// frame
	oldEnv := *env
	oldEnv.inOld = true
	allowed := map[string][]Term{}
	for _, a := range ex.con.Assigns {
		loc := oldEnv.evalLoc(a.Expr)
		for _, t := range oldEnv.locTargets(loc) {
			allowed[t.Name] = append(allowed[t.Name], t.Base)
		}
	}
	var names []string
	for n := range s.Heap {
		names = append(names, n)
	}
	sort.Strings(names)
	for _, n := range names {
		cur := s.Heap[n]
		if cur.S == n {
			continue
		}
		if strings.HasPrefix(n, "|Fn:") {
			continue // ghost call counters are not framed
		}
		r := s.declare(ex.g.fresh("fr"), SRef)
		// (reference 0 is nil, not an object: `armed(t.timer)` of a transaction that has no timer yet denotes no location)
		pre := []Term{IntLt(IntLit(0), r), IntLt(r, Term{"A0", SRef})}
		for _, b := range allowed[n] {
			pre = append(pre, Not(Eq(r, b)))
		}
		goal := Implies(And(pre...), Eq(Select(cur, r), Select(Term{n, cur.Sort}, r)))
		ex.oblige(s, fmt.Sprintf("%s#frame.%s", ex.key, strings.Trim(n, "|")), "frame", ret.Pos(), ex.con.AllTags(), goal,
			"only locations listed in assigns may change")
	}
}

// ---- ghost statements -----------------------------------------------------------------

func (ex *Exec) runGhost(s *State, site, when string, results []Val) {
	if ex.con == nil {
		return
	}
	for _, g := range ex.con.Ghost {
		if g.Site != site || g.When != when {
			continue
		}
		env := ex.rootEnv(s, results)
		switch g.Kind {
		case "let":
			if s.Lets == nil {
				s.Lets = map[string]SV{}
			}
			s.Lets[g.Name] = env.eval(g.RHS)
			continue
		case "check":
			// like assert, but the execution does not continue under the
			// assumption that it holds (used for clauses that are recorded
			// findings: what follows must not be proved for the good states only),
			// and it belongs to the properties it is tagged with only
			if ex.mentionsUnboundSiteLet(s, g.Clause.Expr) {
				continue
			}
			label := g.Clause.Label
			if label == "" {
				label = "c"
			}
			if !ex.dry {
				sc := s.clone()
				ex.oblige(sc, fmt.Sprintf("%s#check.%s.%s", ex.key, g.Site, label), "check", ex.fn.Pos(), g.Clause.Tags,
					ex.evalBool(ex.rootEnv(sc, results), g.Clause.Expr), g.Clause.Src)
			}
			continue
		case "assert":
			if ex.mentionsUnboundSiteLet(s, g.Clause.Expr) {
				// about a value this path has not created (guard such clauses
				// with bound(x) claims where reaching the site matters)
				continue
			}
			label := g.Clause.Label
			if label == "" {
				label = "a"
			}
			ex.oblige(s, fmt.Sprintf("%s#assert.%s.%s", ex.key, g.Site, label), "assert", ex.fn.Pos(), g.Clause.Tags,
				ex.evalBool(env, g.Clause.Expr), g.Clause.Src)
			continue
		}
		if g.Cond != nil {
			c := ex.evalBool(env, g.Cond)
			// conditional ghost update: new = ite(c, rhs, old)
			l := env.evalLoc(g.LHS)
			rhs := env.eval(g.RHS)
			oldv := env.eval(g.LHS)
			if _, ok := rhs.V.(MathMap); ok {
				ex.fail("conditional ghost map update unsupported")
			}
			var rt, ot Term
			ot = env.term(oldv)
			rt = env.coerce(rhs, ot.Sort)
			env.storeLocValue(l, SV{V: Scalar{Ite(c, rt, ot)}, T: oldv.T})
			continue
		}
		l := env.evalLoc(g.LHS)
		env.storeLocValue(l, env.eval(g.RHS))
	}
}

func (ex *Exec) ghostSitesBound() []string {
	// every ghost statement must name an existing call site (fail closed)
	var missing []string
	if ex.con == nil {
		return nil
	}
	sites := map[string]bool{"return": true, "entry": true}
	for _, b := range ex.fn.Blocks {
		for _, in := range b.Instrs {
			if ci, ok := in.(ssa.CallInstruction); ok {
				sites[ex.siteName(in, calleeName(ci.Common()))] = true
			}
		}
	}
	for _, g := range ex.con.Ghost {
		if !sites[g.Site] {
			missing = append(missing, g.Site)
		}
		// ghost code at the return site runs once, after the return value is known
		if g.Site == "entry" || (g.Site == "return" && g.When != "after") {
			missing = append(missing, g.Site+" "+g.When+" (only `at return after` exists)")
		}
	}
	return missing
}

// ---- loops ---------------------------------------------------------------------------------

func countPhis(b *ssa.BasicBlock) int {
	n := 0
	for _, in := range b.Instrs {
		if _, ok := in.(*ssa.Phi); ok {
			n++
		} else {
			break
		}
	}
	return n
}

func (ex *Exec) bindPhis(s *State, header, from *ssa.BasicBlock) {
	fr := s.top()
	idx := -1
	for i, p := range header.Preds {
		if p == from {
			idx = i
		}
	}
	if idx < 0 {
		ex.fail("loop: edge not found")
	}
	vals := map[*ssa.Phi]Val{}
	for _, in := range header.Instrs {
		p, ok := in.(*ssa.Phi)
		if !ok {
			break
		}
		vals[p] = ex.val(s, p.Edges[idx])
	}
	for p, v := range vals {
		fr.Regs[p] = v
	}
}

func (ex *Exec) loopEnv(s *State, header *ssa.BasicBlock) *Env {
	env := ex.rootEnv(s, nil)
	fr := s.top()
	for _, in := range header.Instrs {
		p, ok := in.(*ssa.Phi)
		if !ok {
			break
		}
		if p.Comment != "" {
			env.vars[p.Comment] = SV{V: fr.Regs[p], T: p.Type()}
		}
	}
	for n, nv := range fr.Names {
		if _, taken := env.vars[n]; !taken && ex.g.specs[n] == nil {
			env.vars[n] = SV{V: nv.V, T: nv.T}
		}
	}
	// range iterators: expose the visited set of this loop's own range as
	// `visited`, that of an enclosing range loop as `outervisited`
	own := ""
	for _, in := range header.Instrs {
		if nx, ok := in.(*ssa.Next); ok {
			own = "visited:" + nx.Iter.Name()
		}
	}
	var keys []string
	for k := range s.Ghost {
		if strings.HasPrefix(k, "visited:") {
			keys = append(keys, k)
		}
	}
	sort.Strings(keys)
	for _, k := range keys {
		v := s.Ghost[k]
		switch {
		case own == "" || k == own:
			env.vars["visited"] = SV{V: MathMap{Dom: v}}
		default:
			env.vars["outervisited"] = SV{V: MathMap{Dom: v}}
		}
	}
	return env
}

func (ex *Exec) loopEnter(s *State, li *loopInfo, from *ssa.BasicBlock) {
	if ex.con == nil {
		ex.fail("loop without contract")
	}
	invs := ex.con.LoopInv[li.Ordinal]
	if ex.dry {
		// a nested loop inside the body whose effects are being discovered:
		// give up the discovery, the outer loop then havocs the whole heap
		ex.dryNested = true
		s.Dead = true
		return
	}
	ex.bindPhis(s, li.Header, from)
	env := ex.loopEnv(s, li.Header)
	for _, inv := range invs {
		if ex.mentionsUnboundSiteLet(s, inv.Expr) {
			continue // about a value this path has not created
		}
		ex.oblige(s, fmt.Sprintf("%s#inv.init.%d.%s", ex.key, li.Ordinal, inv.Label), "inv", li.Header.Instrs[0].Pos(), inv.Tags,
			ex.evalBool(env, inv.Expr), inv.Src)
	}
	ex.stabCheck(s, li.Header.Instrs[0].Pos(), "on entering a loop")
	// discover what the loop modifies: dry run of the body
	ex.dryYield = false
	ex.dryNested = false
	mods, gmods := ex.dryRun(s, li)
	if ex.dryNested {
		ex.dryYield = true // untouched arrays may be modified by the nested loop as well
		mods = mods[:0]
		for n := range s.Heap {
			mods = append(mods, n)
		}
		sort.Strings(mods)
		for _, n := range mods {
			ex.lastDryWhole[n] = true
		}
		gmods = gmods[:0]
		for n := range s.Ghost {
			if !strings.HasPrefix(n, "lock:") {
				gmods = append(gmods, n)
			}
		}
		sort.Strings(gmods)
	}
	if ex.dryYield {
		// the body blocks: in a later iteration other steps have already run,
		// so heap arrays not read before the loop are not the initial ones
		s.Epoch++
	}
	fr := s.top()
	for _, in := range li.Header.Instrs {
		p, ok := in.(*ssa.Phi)
		if !ok {
			break
		}
		fr.Regs[p] = ex.freshVal(s, p.Type(), "loop_"+p.Comment)
	}
	for _, n := range mods {
		idxs, pointwise := ex.lastDryIdx[n]
		if !pointwise || ex.lastDryWhole[n] {
			s.heapSet(n, s.declare(ex.g.fresh("lh"), s.Heap[n].Sort))
			continue
		}
		// the body writes this heap array only at loop-invariant indices:
		// havoc exactly those (keeps the frame of everything else)
		cur := s.Heap[n]
		_, vs := splitArraySort(cur.Sort)
		for _, ix := range idxs {
			cur = Store(cur, Term{ix, SRef}, s.declare(ex.g.fresh("lh"), vs))
		}
		s.heapSet(n, cur)
	}
	for _, n := range gmods {
		s.Ghost[n] = s.declare(ex.g.fresh("lg"), s.Ghost[n].Sort)
	}
	env = ex.loopEnv(s, li.Header)
	for _, inv := range invs {
		if ex.mentionsUnboundSiteLet(s, inv.Expr) {
			continue
		}
		s.assume(ex.evalBool(env, inv.Expr))
	}
	ex.stabRebase(s)
}

func (ex *Exec) loopBack(s *State, li *loopInfo, from *ssa.BasicBlock) {
	if ex.dry {
		// record modifications
		for n, t := range s.Heap {
			if b, ok := ex.dryBase[n]; (!ok && t.S != n) || (ok && b.S != t.S) {
				ex.dryMods[n] = true
				ex.drySorts[n] = t.Sort
				// which indices were written (store chain down to the base)?
				base := n
				if ok {
					base = b.S
				}
				cur := t.S
				okChain := true
				for cur != base {
					if !strings.HasPrefix(cur, "(store ") {
						okChain = false
						break
					}
					args := splitTopArgs(cur[len("(store ") : len(cur)-1])
					if len(args) != 3 || ex.mentionsDrySymbol(args[1]) {
						okChain = false
						break
					}
					seen := false
					for _, x := range ex.dryIdx[n] {
						if x == args[1] {
							seen = true
						}
					}
					if !seen {
						ex.dryIdx[n] = append(ex.dryIdx[n], args[1])
					}
					cur = args[0]
				}
				if !okChain {
					ex.dryWhole[n] = true
				}
			}
		}
		for n, t := range s.Ghost {
			if b, ok := ex.dryGhost[n]; ok && b.S != t.S {
				ex.dryGMods[n] = true
			}
		}
		return
	}
	ex.bindPhis(s, li.Header, from)
	ex.stabCheck(s, li.Header.Instrs[0].Pos(), "by a loop iteration")
	env := ex.loopEnv(s, li.Header)
	for _, inv := range ex.con.LoopInv[li.Ordinal] {
		if ex.mentionsUnboundSiteLet(s, inv.Expr) {
			continue
		}
		ex.oblige(s, fmt.Sprintf("%s#inv.keep.%d.%s", ex.key, li.Ordinal, inv.Label), "inv", li.Header.Instrs[0].Pos(), inv.Tags,
			ex.evalBool(env, inv.Expr), inv.Src)
	}
}

// dryRun executes the loop body once from the header with havocked phis and
// no invariant, discarding obligations, to find the heap arrays the body can
// modify (so that exactly those are havocked).
func (ex *Exec) dryRun(s *State, li *loopInfo) ([]string, []string) {
	d := s.clone()
	sub := &Exec{g: ex.g, fn: ex.fn, key: ex.key, con: ex.con, maxPaths: ex.maxPaths, ordinals: map[ssa.Instruction]int{}, ordKind: map[ssa.Instruction]string{},
		callOrd: map[ssa.Instruction]string{}, loops: ex.loops, usedTrusted: map[string]bool{}, usedAssume: map[string]bool{}, covers: map[string]bool{},
		dry: true, dryLoop: li, dryMods: map[string]bool{}, dryGMods: map[string]bool{}, dryBase: map[string]Term{}, dryGhost: map[string]Term{}, drySorts: map[string]Sort{},
		dryIdx: map[string][]string{}, dryWhole: map[string]bool{}, dryStart: ex.g.freshCount()}
	for k, v := range d.Heap {
		sub.dryBase[k] = v
	}
	for k, v := range d.Ghost {
		sub.dryGhost[k] = v
	}
	fr := d.top()
	for _, in := range li.Header.Instrs {
		p, ok := in.(*ssa.Phi)
		if !ok {
			break
		}
		fr.Regs[p] = sub.freshVal(d, p.Type(), "dry_"+p.Comment)
	}
	fr.LoopSeen[li.Header] = true
	fr.Block = li.Header
	fr.Idx = countPhis(li.Header)
	sub.work = []*State{d}
	func() {
		defer func() {
			if r := recover(); r != nil {
				if a, ok := r.(execAbort); ok {
					ex.fail("dry run of loop %d: %s", li.Ordinal, a.msg)
				}
				panic(r)
			}
		}()
		for len(sub.work) > 0 {
			st := sub.work[len(sub.work)-1]
			sub.work = sub.work[:len(sub.work)-1]
			sub.runState(st)
		}
	}()
	var mods, gmods []string
	for n := range sub.dryMods {
		if _, ok := s.Heap[n]; !ok {
			// first touched inside the loop: declare it in the real state
			s.heapCur(n, sub.drySorts[n])
		}
		mods = append(mods, n)
	}
	for n := range sub.dryGMods {
		gmods = append(gmods, n)
	}
	sort.Strings(mods)
	sort.Strings(gmods)
	for k := range sub.usedTrusted {
		ex.usedTrusted[k] = true
	}
	ex.lastDryIdx, ex.lastDryWhole = sub.dryIdx, sub.dryWhole
	if sub.dryYield {
		ex.dryYield = true
	}
	if sub.dryNested {
		ex.dryNested = true
	}
	return mods, gmods
}


var freshSymRe = regexp.MustCompile(`!(\d+)`)

// mentionsDrySymbol: does the term mention a symbol created during the dry run
// (i.e. a loop-variant value)?
func (ex *Exec) mentionsDrySymbol(t string) bool {
	for _, m := range freshSymRe.FindAllStringSubmatch(t, -1) {
		var n int
		fmt.Sscanf(m[1], "%d", &n)
		if n > ex.dryStart {
			return true
		}
	}
	return false
}
