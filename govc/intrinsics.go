package main

// Trusted models ("intrinsics") for code outside /repo and for logging,
// synchronisation and time (DESIGN.md 3.4 and section 8). Every use is
// recorded in the evidence's trusted_base.

import (
	"fmt"
	"go/types"
	"strings"

	"golang.org/x/tools/go/ssa"
)

type callOut struct {
	v        Val
	forks    []*State
	forkVals []Val
}

type intrinsicFn func(ex *Exec, s *State, instr ssa.Instruction, args []Val) callOut

func intrinsicName(f *ssa.Function) string {
	return f.String()
}

func (ex *Exec) freshError(s *State) Term {
	// some non-nil error distinct from sentinels (fresh identity)
	r := ex.newRef(s)
	tag := IntLit(int64(ex.g.tags.tag(types.NewPointer(types.Universe.Lookup("error").Type()))))
	return MkI(tag, r, BVLit(0, 64), Term{"str_empty", SStr})
}

func (ex *Exec) opaqueStr(s *State) Term {
	c := s.declare(ex.g.fresh("ostr"), SStr)
	ex.assumeWF(s, c, types.Typ[types.String])
	return c
}

var bufLeaf = func(kind string) string { return "|H:bytes.Buffer:" + kind + "|" }

func (ex *Exec) bufGet(s *State, b Term) (base, off, ln Term) {
	ba := s.heapCur("|H:bytes.Buffer#base|", SArray(SRef, SRef))
	oa := s.heapCur("|H:bytes.Buffer#off|", SArray(SRef, SBV(64)))
	la := s.heapCur("|H:bytes.Buffer#len|", SArray(SRef, SBV(64)))
	return Select(ba, b), Select(oa, b), Select(la, b)
}

func (ex *Exec) bufSet(s *State, b, base, off, ln Term) {
	ba := s.heapCur("|H:bytes.Buffer#base|", SArray(SRef, SRef))
	oa := s.heapCur("|H:bytes.Buffer#off|", SArray(SRef, SBV(64)))
	la := s.heapCur("|H:bytes.Buffer#len|", SArray(SRef, SBV(64)))
	s.heapSet("|H:bytes.Buffer#base|", Store(ba, b, base))
	s.heapSet("|H:bytes.Buffer#off|", Store(oa, b, off))
	s.heapSet("|H:bytes.Buffer#len|", Store(la, b, ln))
}

func bufPtr(ex *Exec, v Val) Term {
	p, ok := v.(PtrV)
	if !ok || len(p.Path) != 0 {
		ex.fail("bytes.Buffer embedded in a struct is not modelled")
	}
	return p.Base
}

func (ex *Exec) mem8(s *State) (string, Term) {
	n := memName(SBV(8))
	return n, s.heapCur(n, SArray(SRef, SArray(SBV(64), SBV(8))))
}

func isLoggerType(t types.Type) bool {
	n, ok := t.(*types.Named)
	return ok && n.Obj().Pkg() != nil && n.Obj().Pkg().Path() == repoPrefix+"/util" && n.Obj().Name() == "Logger"
}

func (ex *Exec) intrinsicInvoke(it types.Type, m *types.Func) intrinsicFn {
	if isLoggerType(it) {
		ex.usedAssume["A-LOG: util.Logger calls have no effect and do not panic"] = true
		if m.Name() == "WithTag" {
			return func(ex *Exec, s *State, instr ssa.Instruction, args []Val) callOut {
				return callOut{v: args[0]}
			}
		}
		return func(ex *Exec, s *State, instr ssa.Instruction, args []Val) callOut {
			return callOut{}
		}
	}
	key := typeKey(it) + "." + m.Name()
	switch key {
	case "io.Reader.Read":
		return func(ex *Exec, s *State, instr ssa.Instruction, args []Val) callOut {
			p := ex.asScalar(args[1])
			n := s.declare(ex.g.fresh("n"), SBV(64))
			errv := s.declare(ex.g.fresh("rerr"), SIface)
			ex.assumeWF(s, errv, nil)
			s.assume(Implies(Eq(errv, TNilI), And(BVSle(BVLit(0, 64), n), BVSle(n, SlLen(p)))))
			// the buffer content is arbitrary afterwards
			name, m := ex.mem8(s)
			nc := s.declare(ex.g.fresh("rd"), SArray(SBV(64), SBV(8)))
			s.heapSet(name, Store(m, SlBase(p), nc))
			return callOut{v: TupleV{Scalar{n}, Scalar{errv}}}
		}
	case "github.com/eclipse/paho.mqtt.golang/packets.ControlPacket.Write":
		// trusted: serialises the packet's fields as MQTT 3.1.1 into w; may fail
		return func(ex *Exec, s *State, instr ssa.Instruction, args []Val) callOut {
			e := s.declare(ex.g.fresh("werr"), SIface)
			ex.assumeWF(s, e, nil)
			return callOut{v: Scalar{e}}
		}
	case "github.com/eclipse/paho.mqtt.golang/packets.ControlPacket.String":
		return func(ex *Exec, s *State, instr ssa.Instruction, args []Val) callOut {
			return callOut{v: Scalar{ex.opaqueStr(s)}}
		}
	case "net.Conn.Write", "io.Writer.Write":
		// trusted: external I/O; may fail; the buffer is not modified
		return func(ex *Exec, s *State, instr ssa.Instruction, args []Val) callOut {
			p := ex.asScalar(args[1])
			n := s.declare(ex.g.fresh("n"), SBV(64))
			errv := s.declare(ex.g.fresh("werr"), SIface)
			ex.assumeWF(s, errv, nil)
			s.assume(Implies(Eq(errv, TNilI), And(BVSle(BVLit(0, 64), n), BVSle(n, SlLen(p)))))
			ex.usedAssume["A-IO: net.Conn / io.Writer Write is external I/O: it may fail, returns 0 <= n <= len(p) on success and does not modify p"] = true
			return callOut{v: TupleV{Scalar{n}, Scalar{errv}}}
		}
	case "net.Conn.Close":
		// trusted: closes the connection (ghost: connClosed(conn)); may report an error
		return func(ex *Exec, s *State, instr ssa.Instruction, args []Val) callOut {
			c := ex.asScalar(args[0])
			arr := s.heapCur("|Conn:closed|", SArray(SRef, SBool))
			s.heapSet("|Conn:closed|", Store(arr, IRef(c), TTrue))
			e := s.declare(ex.g.fresh("cerr"), SIface)
			ex.assumeWF(s, e, nil)
			return callOut{v: Scalar{e}}
		}
	case "context.Context.Done":
		return func(ex *Exec, s *State, instr ssa.Instruction, args []Val) callOut {
			c := s.declare(ex.g.fresh("ctxdone"), SRef)
			ex.assumeRefOK(s, c)
			return callOut{v: Scalar{c}}
		}
	case "context.Context.Err":
		return func(ex *Exec, s *State, instr ssa.Instruction, args []Val) callOut {
			e := s.declare(ex.g.fresh("ctxerr"), SIface)
			ex.assumeWF(s, e, nil)
			return callOut{v: Scalar{e}}
		}
	case "error.Error":
		return func(ex *Exec, s *State, instr ssa.Instruction, args []Val) callOut {
			return callOut{v: Scalar{ex.opaqueStr(s)}}
		}
	case "fmt.Stringer.String":
		return func(ex *Exec, s *State, instr ssa.Instruction, args []Val) callOut {
			return callOut{v: Scalar{ex.opaqueStr(s)}}
		}
	}
	return nil
}

func (ex *Exec) intrinsic(f *ssa.Function) intrinsicFn {
	name := f.String()
	switch name {
	case "fmt.Errorf", "errors.New":
		return func(ex *Exec, s *State, instr ssa.Instruction, args []Val) callOut {
			return callOut{v: Scalar{ex.freshError(s)}}
		}
	case "fmt.Sprintf", "fmt.Sprint":
		return func(ex *Exec, s *State, instr ssa.Instruction, args []Val) callOut {
			return callOut{v: Scalar{ex.opaqueStr(s)}}
		}
	case "bytes.NewBuffer":
		return func(ex *Exec, s *State, instr ssa.Instruction, args []Val) callOut {
			sl := ex.asScalar(args[0])
			b := ex.newRef(s)
			ex.bufSet(s, b, SlBase(sl), SlOff(sl), SlLen(sl))
			// NewBuffer takes ownership of buf; a nil/zero slice gets fresh memory lazily -- we
			// require a non-nil backing store (all callers pass make(...))
			s.assume(Not(Eq(SlBase(sl), TNilR)))
			return callOut{v: PtrV{Base: b, Root: f.Signature.Results().At(0).Type().(*types.Pointer).Elem()}}
		}
	case "(*bytes.Buffer).WriteByte":
		return func(ex *Exec, s *State, instr ssa.Instruction, args []Val) callOut {
			b := bufPtr(ex, args[0])
			c := ex.asScalar(args[1])
			base, off, ln := ex.bufGet(s, b)
			name, m := ex.mem8(s)
			s.heapSet(name, Store(m, base, Store(Select(m, base), BVAdd(off, ln), c)))
			ex.bufSet(s, b, base, off, BVAdd(ln, BVLit(1, 64)))
			return callOut{v: Scalar{TNilI}}
		}
	case "(*bytes.Buffer).Write":
		return func(ex *Exec, s *State, instr ssa.Instruction, args []Val) callOut {
			b := bufPtr(ex, args[0])
			p := ex.asScalar(args[1])
			base, off, ln := ex.bufGet(s, b)
			name, m := ex.mem8(s)
			nc := s.declare(ex.g.fresh("bw"), SArray(SBV(64), SBV(8)))
			i := ex.g.fresh("i")
			start := BVAdd(off, ln)
			oldc := Select(m, base)
			src := Select(m, SlBase(p))
			s.assume(Term{fmt.Sprintf("(forall ((%s (_ BitVec 64))) (! (= (select %s %s) (ite (and (bvule %s %s) (bvult %s (bvadd %s %s))) (select %s (bvadd %s (bvsub %s %s))) (select %s %s))) :pattern ((select %s %s))))",
				i, nc.S, i, start.S, i, i, start.S, SlLen(p).S, src.S, SlOff(p).S, i, start.S, oldc.S, i, nc.S, i), SBool})
			s.heapSet(name, Store(m, base, nc))
			ex.bufSet(s, b, base, off, BVAdd(ln, SlLen(p)))
			return callOut{v: TupleV{Scalar{SlLen(p)}, Scalar{TNilI}}}
		}
	case "(*bytes.Buffer).Bytes":
		return func(ex *Exec, s *State, instr ssa.Instruction, args []Val) callOut {
			b := bufPtr(ex, args[0])
			base, off, ln := ex.bufGet(s, b)
			cp := s.declare(ex.g.fresh("bcap"), SBV(64))
			s.assume(And(BVSle(ln, cp), BVUle(cp, BVLit(1<<40, 64)), BVSle(BVLit(0, 64), ln), BVUle(off, BVLit(1<<40, 64))))
			return callOut{v: Scalar{MkSlice(base, off, ln, cp)}}
		}
	case "(encoding/binary.bigEndian).Uint16":
		return func(ex *Exec, s *State, instr ssa.Instruction, args []Val) callOut {
			sl := ex.asScalar(args[1])
			ex.panicObl(s, instr, "index", BVSle(BVLit(2, 64), SlLen(sl)))
			_, m := ex.mem8(s)
			c := Select(m, SlBase(sl))
			b0 := Select(c, SlOff(sl))
			b1 := Select(c, BVAdd(SlOff(sl), BVLit(1, 64)))
			return callOut{v: Scalar{App(SBV(16), "concat", b0, b1)}}
		}
	case "(encoding/binary.bigEndian).PutUint16":
		return func(ex *Exec, s *State, instr ssa.Instruction, args []Val) callOut {
			sl := ex.asScalar(args[1])
			v := ex.asScalar(args[2])
			ex.panicObl(s, instr, "index", BVSle(BVLit(2, 64), SlLen(sl)))
			name, m := ex.mem8(s)
			c := Select(m, SlBase(sl))
			hi := Term{fmt.Sprintf("((_ extract 15 8) %s)", v.S), SBV(8)}
			lo := Term{fmt.Sprintf("((_ extract 7 0) %s)", v.S), SBV(8)}
			c2 := Store(Store(c, SlOff(sl), hi), BVAdd(SlOff(sl), BVLit(1, 64)), lo)
			s.heapSet(name, Store(m, SlBase(sl), c2))
			return callOut{}
		}
	case "(*sync.Mutex).Lock", "(*sync.Mutex).Unlock", "(*sync.RWMutex).Lock", "(*sync.RWMutex).Unlock", "(*sync.RWMutex).RLock", "(*sync.RWMutex).RUnlock":
		return func(ex *Exec, s *State, instr ssa.Instruction, args []Val) callOut {
			ex.lockEvent(s, instr, name, args[0])
			return callOut{}
		}
	case "sync/atomic.SwapUint32":
		return func(ex *Exec, s *State, instr ssa.Instruction, args []Val) callOut {
			old := ex.load(s, instr, args[0])
			ex.store(s, instr, args[0], args[1])
			ex.usedAssume["A-ATOMICPKG: sync/atomic operations are atomic"] = true
			return callOut{v: old}
		}
	case "sync/atomic.LoadUint32":
		return func(ex *Exec, s *State, instr ssa.Instruction, args []Val) callOut {
			ex.usedAssume["A-ATOMICPKG: sync/atomic operations are atomic"] = true
			return callOut{v: ex.load(s, instr, args[0])}
		}
	case "github.com/eclipse/paho.mqtt.golang/packets.NewControlPacket":
		return func(ex *Exec, s *State, instr ssa.Instruction, args []Val) callOut {
			// trusted: returns a fresh zero-valued *XPacket with FixedHeader.MessageType set
			names := map[string]string{"1": "ConnectPacket", "2": "ConnackPacket", "3": "PublishPacket", "4": "PubackPacket", "5": "PubrecPacket",
				"6": "PubrelPacket", "7": "PubcompPacket", "8": "SubscribePacket", "9": "SubackPacket", "10": "UnsubscribePacket",
				"11": "UnsubackPacket", "12": "PingreqPacket", "13": "PingrespPacket", "14": "DisconnectPacket"}
			code := ex.asScalar(args[0])
			var n string
			if v, ok := parseBV(code.S); ok {
				n = names[fmt.Sprint(v)]
			}
			if n == "" {
				ex.fail("NewControlPacket with non-constant or unknown type %s", code.S)
			}
			pp := ex.g.pkgs["github.com/eclipse/paho.mqtt.golang/packets"]
			tn, ok := pp.Pkg.Scope().Lookup(n).(*types.TypeName)
			if !ok {
				ex.fail("paho type %s not found", n)
			}
			pv := ex.doAlloc(s, tn.Type()).(PtrV)
			st := tn.Type().Underlying().(*types.Struct)
			for i := 0; i < st.NumFields(); i++ {
				if st.Field(i).Name() == "FixedHeader" {
					fh := st.Field(i).Type().Underlying().(*types.Struct)
					for j := 0; j < fh.NumFields(); j++ {
						if fh.Field(j).Name() == "MessageType" {
							ex.storeAt(s, pv.Base, tn.Type(), []int{i, j}, Scalar{code})
						}
					}
				}
			}
			return callOut{v: Scalar{ex.makeIface(s, types.NewPointer(tn.Type()), pv)}}
		}
	case "(*golang.org/x/sync/errgroup.Group).Go":
		return func(ex *Exec, s *State, instr ssa.Instruction, args []Val) callOut {
			// spawns a goroutine: the function runs as a separate step
			// (A-ATOMIC); its precondition must hold from now on
			if p, ok := args[0].(PtrV); ok {
				ex.nilCheck(s, instr, p.Base)
			}
			ex.callbackEnabled(s, instr, args[1])
			ex.usedAssume["A-ATOMIC: goroutine bodies verified as separate steps"] = true
			return callOut{}
		}
	case "(*golang.org/x/sync/errgroup.Group).Wait":
		return func(ex *Exec, s *State, instr ssa.Instruction, args []Val) callOut {
			// trusted: blocks until the group's goroutines have returned; the
			// result (first non-nil error, or nil) is unconstrained
			if p, ok := args[0].(PtrV); ok {
				ex.nilCheck(s, instr, p.Base)
			}
			if p, ok := args[0].(PtrV); ok {
				// ghost: the group has been waited for (waited(group))
				arr := s.heapCur("|Group:waited|", SArray(SRef, SBool))
				s.heapSet("|Group:waited|", Store(arr, p.Base, TTrue))
			}
			e := s.declare(ex.g.fresh("gerr"), SIface)
			ex.assumeWF(s, e, nil)
			ex.usedAssume["A-ERRGROUP: errgroup.Group.Wait returns an unconstrained error value (nil after a clean shutdown)"] = true
			return callOut{v: Scalar{e}}
		}
	case "(*github.com/urfave/cli/v2.Context).Bool", "(*github.com/urfave/cli/v2.Context).IsSet", "(*github.com/urfave/cli/v2.Context).String",
		"(*github.com/urfave/cli/v2.Context).Path", "(*github.com/urfave/cli/v2.Context).Int", "(*github.com/urfave/cli/v2.Context).StringSlice",
		"(*github.com/urfave/cli/v2.Context).Duration":
		// trusted (A-CLI): the value / presence of a flag is a function of the
		// context and the flag name (flags and environment variables are
		// resolved by urfave/cli; not modelled further)
		return func(ex *Exec, s *State, instr ssa.Instruction, args []Val) callOut {
			c := args[0].(PtrV).Base
			n := ex.asScalar(args[1])
			ex.usedAssume["A-CLI: urfave/cli resolves flags and environment variables; Context.Bool/String/Path/Int/IsSet/StringSlice are functions of the context and the flag name"] = true
			app := func(f string, so Sort) Term { return Term{fmt.Sprintf("(%s %s %s)", f, c.S, n.S), so} }
			switch {
			case strings.HasSuffix(name, ".Bool"):
				return callOut{v: Scalar{app("flag_bool", SBool)}}
			case strings.HasSuffix(name, ".IsSet"):
				return callOut{v: Scalar{app("flag_set", SBool)}}
			case strings.HasSuffix(name, ".String"), strings.HasSuffix(name, ".Path"):
				r := app("flag_str", SStr)
				ex.assumeWF(s, r, types.Typ[types.String])
				return callOut{v: Scalar{r}}
			case strings.HasSuffix(name, ".StringSlice"):
				r := app("flag_strs", SSlice)
				ex.assumeWF(s, r, nil)
				return callOut{v: Scalar{r}}
			default:
				return callOut{v: Scalar{app("flag_int", SBV(64))}}
			}
		}
	case "github.com/eclipse/paho.mqtt.golang/packets.ReadPacket":
		// trusted (A-PAHO): reads one MQTT packet; on success the result is a
		// non-nil control packet (one of paho's packet types, no typed nil)
		return func(ex *Exec, s *State, instr ssa.Instruction, args []Val) callOut {
			pk := s.declare(ex.g.fresh("mqpkt"), SIface)
			ex.assumeWF(s, pk, nil)
			e := s.declare(ex.g.fresh("rerr"), SIface)
			ex.assumeWF(s, e, nil)
			s.assume(Implies(Eq(e, TNilI), Not(Eq(pk, TNilI))))
			ex.usedAssume["A-PAHO: paho's ReadPacket returns a non-nil control packet or an error"] = true
			return callOut{v: TupleV{Scalar{pk}, Scalar{e}}}
		}
	case "(time.Duration).Seconds":
		return func(ex *Exec, s *State, instr ssa.Instruction, args []Val) callOut {
			// floating point is not modelled: an unconstrained value
			return callOut{v: Scalar{s.declare(ex.g.fresh("secs"), SBV(64))}}
		}
	case "context.WithCancel":
		return func(ex *Exec, s *State, instr ssa.Instruction, args []Val) callOut {
			// trusted: a derived context and its cancel function (non-nil)
			c := s.declare(ex.g.fresh("ctx"), SIface)
			ex.assumeWF(s, c, nil)
			s.assume(Not(Eq(ITag(c), IntLit(0))))
			return callOut{v: TupleV{Scalar{c}, FuncV{Ref: ex.newRef(s)}}}
		}
	case "golang.org/x/sync/errgroup.WithContext":
		return func(ex *Exec, s *State, instr ssa.Instruction, args []Val) callOut {
			// trusted (A-ERRGROUP): a new group and a derived context (non-nil)
			c := s.declare(ex.g.fresh("gctx"), SIface)
			ex.assumeWF(s, c, nil)
			s.assume(Not(Eq(ITag(c), IntLit(0))))
			r := ex.newRef(s)
			var root types.Type = types.Typ[types.Int]
			if v, ok := instr.(ssa.Value); ok {
				if tu, ok := v.Type().(*types.Tuple); ok && tu.Len() == 2 {
					if p, ok := tu.At(0).Type().Underlying().(*types.Pointer); ok {
						root = p.Elem()
					}
				}
			}
			return callOut{v: TupleV{PtrV{Base: r, Root: root}, Scalar{c}}}
		}
	case "net.Dial":
		return func(ex *Exec, s *State, instr ssa.Instruction, args []Val) callOut {
			// trusted (A-IO): a connection or an error
			c := s.declare(ex.g.fresh("conn"), SIface)
			ex.assumeWF(s, c, nil)
			e := s.declare(ex.g.fresh("derr"), SIface)
			ex.assumeWF(s, e, nil)
			s.assume(Implies(Eq(ITag(e), IntLit(0)), Not(Eq(ITag(c), IntLit(0)))))
			ex.usedAssume["A-IO: net.Dial returns a connection or an error"] = true
			return callOut{v: TupleV{Scalar{c}, Scalar{e}}}
		}
	case "bytes.Split":
		return func(ex *Exec, s *State, instr ssa.Instruction, args []Val) callOut {
			// trusted (A-SPLIT): a slice of sub-slices with one part more than
			// there are separators in the argument. The number of separators
			// (sep_count) is an uninterpreted function of the argument slice as
			// the memory is at the call; contracts name it sepCount(x). Which
			// bytes each part holds is not modelled.
			r := s.declare(ex.g.fresh("split"), SSlice)
			ex.assumeWF(s, r, nil)
			cnt := App(SBV(64), "sep_count", ex.asScalar(args[0]))
			s.assume(BVUlt(cnt, BVLit(1<<40, 64)))
			s.assume(Eq(SlLen(r), BVAdd(cnt, BVLit(1, 64))))
			ex.usedAssume["A-SPLIT: bytes.Split(s, sep) returns exactly (number of occurrences of sep in s)+1 parts; the contents of the parts are not modelled"] = true
			return callOut{v: Scalar{r}}
		}
	case "(*sync.Map).Load":
		return func(ex *Exec, s *State, instr ssa.Instruction, args []Val) callOut {
			dn, vn, dom, val, base := ex.syncMapArrs(s, args[0])
			_, _ = dn, vn
			k := ex.asScalar(args[1])
			has := Select(Select(dom, base), k)
			v := Select(Select(val, base), k)
			ex.assumeWF(s, v, nil)
			ex.usedAssume["A-MUTEX: sync.Map is an atomic map (modelled as domain/value arrays)"] = true
			return callOut{v: TupleV{Scalar{Ite(has, v, TNilI)}, Scalar{has}}}
		}
	case "(*sync.Map).Store":
		return func(ex *Exec, s *State, instr ssa.Instruction, args []Val) callOut {
			dn, vn, dom, val, base := ex.syncMapArrs(s, args[0])
			k := ex.asScalar(args[1])
			v := ex.asScalar(args[2])
			s.heapSet(dn, Store(dom, base, Store(Select(dom, base), k, TTrue)))
			s.heapSet(vn, Store(val, base, Store(Select(val, base), k, v)))
			return callOut{}
		}
	case "(*sync.Map).Delete":
		return func(ex *Exec, s *State, instr ssa.Instruction, args []Val) callOut {
			dn, _, dom, _, base := ex.syncMapArrs(s, args[0])
			k := ex.asScalar(args[1])
			s.heapSet(dn, Store(dom, base, Store(Select(dom, base), k, TFalse)))
			return callOut{}
		}
	case "(*sync.Map).Range":
		return func(ex *Exec, s *State, instr ssa.Instruction, args []Val) callOut {
			return ex.syncMapRange(s, instr, args)
		}
	case "time.AfterFunc":
		return func(ex *Exec, s *State, instr ssa.Instruction, args []Val) callOut {
			// A-TIMER: the callback runs once, d after the call, unless
			// stopped; elapsed time is not modelled. Ghost: armed, delay, fn.
			d := ex.asScalar(args[0])
			f := ex.asScalar(args[1])
			r := ex.newRef(s)
			ar := s.heapCur("|Timer:armed|", SArray(SRef, SBool))
			s.heapSet("|Timer:armed|", Store(ar, r, TTrue))
			dl := s.heapCur("|Timer:delay|", SArray(SRef, SBV(64)))
			s.heapSet("|Timer:delay|", Store(dl, r, d))
			fa := s.heapCur("|Timer:fn|", SArray(SRef, SRef))
			s.heapSet("|Timer:fn|", Store(fa, r, f))
			ex.usedAssume["A-TIMER: time.AfterFunc(d, f) runs f once, d after the call, unless Stop succeeded; elapsed time is not modelled"] = true
			ex.callbackEnabled(s, instr, args[1])
			if _, con, _ := ex.closureEnv(s, args[1], ex.key+"@callback"); con != nil {
				ex.asyncDeclared(s, instr, con, ex.siteName(instr, "AfterFunc"))
			}
			return callOut{v: PtrV{Base: r, Root: f0ResultElem(instr)}}
		}
	case "(*time.Timer).Stop":
		return func(ex *Exec, s *State, instr ssa.Instruction, args []Val) callOut {
			p := args[0].(PtrV)
			ex.nilCheck(s, instr, p.Base)
			ar := s.heapCur("|Timer:armed|", SArray(SRef, SBool))
			s.heapSet("|Timer:armed|", Store(ar, p.Base, TFalse))
			b := s.declare(ex.g.fresh("stopped"), SBool)
			return callOut{v: Scalar{b}}
		}
	case "strings.Split":
		return func(ex *Exec, s *State, instr ssa.Instruction, args []Val) callOut {
			// trusted (A-STRSPLIT): a fresh, never aliased []string with at least
			// one element whose join with the same separator is the argument
			// again (str_join is an uninterpreted function of the slice value
			// and the separator; the elements themselves are not modelled).
			a, sep := ex.asScalar(args[0]), ex.asScalar(args[1])
			base := ex.newRef(s)
			n := s.declare(ex.g.fresh("nparts"), SBV(64))
			s.assume(And(BVSle(BVLit(1, 64), n), BVUlt(n, BVLit(1<<40, 64))))
			r := MkSlice(base, BVLit(0, 64), n, n)
			s.assume(Eq(Term{fmt.Sprintf("(str_join %s %s)", r.S, sep.S), SStr}, a))
			ex.usedAssume["A-STRSPLIT: strings.Split(s, sep) returns a fresh slice of at least one part with strings.Join(parts, sep) == s; which strings the parts are is not modelled"] = true
			return callOut{v: Scalar{r}}
		}
	case "strings.Join":
		return func(ex *Exec, s *State, instr ssa.Instruction, args []Val) callOut {
			a, sep := ex.asScalar(args[0]), ex.asScalar(args[1])
			r := Term{fmt.Sprintf("(str_join %s %s)", a.S, sep.S), SStr}
			ex.assumeWF(s, r, types.Typ[types.String])
			ex.usedAssume["A-STRSPLIT: strings.Join is a function of the slice value and the separator (elements are not written after the split)"] = true
			return callOut{v: Scalar{r}}
		}
	case "time.After":
		return func(ex *Exec, s *State, instr ssa.Instruction, args []Val) callOut {
			// A-TIMER: a channel that becomes ready at some unspecified time
			// (elapsed time is not modelled): an arbitrary channel reference
			// whose readiness is unconstrained.
			c := s.declare(ex.g.fresh("tick"), SRef)
			ex.assumeRefOK(s, c)
			ex.usedAssume["A-TIMER: time.After(d) yields a channel that becomes ready at an unspecified time; elapsed time is not modelled"] = true
			return callOut{v: Scalar{c}}
		}
	case "time.NewTicker":
		return func(ex *Exec, s *State, instr ssa.Instruction, args []Val) callOut {
			// A-TIMER: a ticker object whose channel C delivers ticks at
			// unspecified times; Stop and Reset are not modelled (a tick may
			// be delivered at any blocking select, which over-approximates
			// every stop/reset history)
			r := ex.newRef(s)
			ex.usedAssume["A-TIMER: a time.Ticker may deliver a tick at any blocking select, whether stopped or not; elapsed time is not modelled"] = true
			return callOut{v: PtrV{Base: r, Root: f0ResultElem(instr)}}
		}
	case "(*time.Ticker).Stop", "(*time.Ticker).Reset":
		return func(ex *Exec, s *State, instr ssa.Instruction, args []Val) callOut {
			if p, ok := args[0].(PtrV); ok {
				ex.nilCheck(s, instr, p.Base)
			}
			return callOut{}
		}
	case "strings.Contains":
		return func(ex *Exec, s *State, instr ssa.Instruction, args []Val) callOut {
			// uninterpreted predicate over (string, substring)
			a, b := ex.asScalar(args[0]), ex.asScalar(args[1])
			r := Term{fmt.Sprintf("(str_contains %s %s)", a.S, b.S), SBool}
			if lit, ok := ex.g.strLitValue(b); ok && len(lit) == 1 {
				// trusted (A-CONTAINS): for a one-octet substring the result is
				// "some octet of s equals it". Both directions of the definition
				// are assumed for this call: a witness position when true, no
				// position when false.
				c := BVLit(uint64(lit[0]), 8)
				w := s.declare(ex.g.fresh("cw"), SBV(64))
				s.assume(Implies(r, And(BVUlt(w, StrLen(a)), Eq(StrAt(a, w), c))))
				q := ex.g.fresh("q_ci")
				s.assume(Implies(Not(r), Term{fmt.Sprintf("(forall ((%s (_ BitVec 64))) (! (=> (bvult %s %s) (not (= (sat %s %s) %s))) :pattern ((sat %s %s))))",
					q, q, StrLen(a).S, a.S, q, c.S, a.S, q), SBool}))
				ex.usedAssume["A-CONTAINS: strings.Contains(s, c) for a one-octet literal c is true exactly when some octet of s equals c"] = true
			}
			return callOut{v: Scalar{r}}
		}
	}
	// logging helpers implemented in util (not through the interface)
	if strings.HasPrefix(name, "("+repoPrefix+"/util.") && strings.Contains(name, "ogger)") {
		return func(ex *Exec, s *State, instr ssa.Instruction, args []Val) callOut { return callOut{} }
	}
	return nil
}

// lockEvent: records lock operations for the lock-coverage obligations (C29).
func (ex *Exec) lockEvent(s *State, instr ssa.Instruction, name string, recv Val) {
	p, ok := recv.(PtrV)
	if !ok {
		return
	}
	key := "lock:" + p.Base.S + ":" + fmt.Sprint(p.Path)
	cur, has := s.Ghost[key]
	if !has {
		cur = Term{"0", SRef}
	}
	// All guarded accesses of one call form one critical section: acquiring
	// the mutex (again) after a guarded field has already been accessed means
	// the call reads and updates in separate sections, between which another
	// caller can run (obligation lock.single_section).
	if ex.con != nil && len(ex.con.Guards) > 0 && !ex.dry && (strings.HasSuffix(name, ".Lock") || strings.HasSuffix(name, ".RLock")) {
		if t, ok := s.Ghost["touched:"+p.Base.S+":"+fmt.Sprint(p.Path)]; ok {
			ex.oblige(s, fmt.Sprintf("%s#lock.single_section", ex.key), "lock", ex.fn.Pos(), ex.con.Guards[0].Tags, Eq(t, IntLit(0)),
				"the guarded fields are accessed in more than one critical section of the same call")
		}
	}
	// 0 = unlocked, 1 = write-locked, 2 = read-locked
	switch {
	case strings.HasSuffix(name, ".Lock"):
		s.Ghost[key] = IntLit(1)
	case strings.HasSuffix(name, ".RLock"):
		s.Ghost[key] = IntLit(2)
	default:
		s.Ghost[key] = IntLit(0)
	}
	_ = cur
	ex.usedAssume["A-MUTEX: sync.Mutex/RWMutex provide mutual exclusion"] = true
}

func (ex *Exec) callOpaqueFunc(s *State, instr ssa.Instruction, c *ssa.CallCommon, fn Term, res ssa.Value, args []Val, stay bool) []*State {
	// Calling a function value unknown to the executor (a callback stored in
	// a field). Model: ghost call counter per function identity; results
	// unconstrained; no effect on the heap visible to the caller
	// (A-CALLBACK).
	ex.panicObl(s, instr, "nilderef", Not(Eq(fn, TNilR)))
	cnt := s.heapCur("|Fn:calls|", SArray(SRef, SBV(64)))
	s.heapSet("|Fn:calls|", Store(cnt, fn, BVAdd(Select(cnt, fn), BVLit(1, 64))))
	if len(args) > 0 {
		if sc, ok := args[0].(Scalar); ok && sc.T.Sort == SIface {
			la := s.heapCur("|Fn:lastarg|", SArray(SRef, SIface))
			s.heapSet("|Fn:lastarg|", Store(la, fn, sc.T))
		}
	}
	ex.usedAssume["A-CALLBACK: callbacks stored in fields are opaque: counted, results unconstrained, no effect on the caller's objects"] = true
	sig := c.Value.Type().Underlying().(*types.Signature)
	var rv Val
	switch sig.Results().Len() {
	case 0:
	case 1:
		rv = ex.freshVal(s, sig.Results().At(0).Type(), "cb")
	default:
		rv = ex.freshVal(s, sig.Results(), "cb")
	}
	ex.finishCall(s, instr, res, stay, rv)
	return nil
}

// f0ResultElem: pointee type of the (single, pointer) result of a call instruction.
func f0ResultElem(instr ssa.Instruction) types.Type {
	if v, ok := instr.(ssa.Value); ok {
		if p, ok := v.Type().Underlying().(*types.Pointer); ok {
			return p.Elem()
		}
	}
	return types.Typ[types.Int]
}
