package main

// Callbacks and closures handed to library code.
//
// * Callbacks handed to timers / goroutines run as separate steps at any later
//   moment, so the precondition of a callback under contract must hold from
//   the moment it is handed over (obligation callback_enabled at the call site).
// * sync.Map.Range(f) runs the closure f for an arbitrary number of entries in
//   arbitrary order: the closure's `invariant` clauses (over its captured
//   variables) are obliged on entry, the locations the closure assigns are
//   havocked, and the invariants are assumed afterwards. The closure itself is
//   verified as a function under contract (invariants assumed on entry and
//   obliged on return, with (key, value) an entry of the map).

import (
	"fmt"
	"go/types"
	"strings"

	"golang.org/x/tools/go/ssa"
)

// closureEnv builds the spec environment of a function value known to the
// executor: captured variables by name (current values), bound receiver for
// method values. Returns nil if the value has no contract.
func (ex *Exec) closureEnv(s *State, fval Val, where string) (*Env, *Contract, *ssa.Function) {
	fv, ok := fval.(FuncV)
	if !ok || fv.Fn == nil {
		return nil, nil, nil
	}
	target := fv.Fn
	vars := map[string]SV{}
	env := &Env{ex: ex, s: s, vars: vars, pkg: ex.pkgOf(ex.fn), where: where}
	if strings.Contains(target.Synthetic, "bound") && len(fv.Bindings) == 1 {
		recvT := target.FreeVars[0].Type()
		name := strings.TrimSuffix(target.Name(), "$bound")
		ms := ex.g.prog.MethodSets.MethodSet(recvT)
		for i := 0; i < ms.Len(); i++ {
			if ms.At(i).Obj().Name() == name {
				if m := ex.g.prog.MethodValue(ms.At(i)); m != nil {
					target = m
				}
			}
		}
		if target == fv.Fn || len(target.Params) == 0 {
			return nil, nil, nil
		}
		vars[target.Params[0].Name()] = SV{V: fv.Bindings[0], T: target.Params[0].Type()}
	} else {
		for i, f := range target.FreeVars {
			if i >= len(fv.Bindings) {
				break
			}
			if pv, ok := fv.Bindings[i].(PtrV); ok && len(pv.Path) == 0 {
				if pt, ok := f.Type().Underlying().(*types.Pointer); ok {
					if _, isStruct := pt.Elem().Underlying().(*types.Struct); !isStruct || modelKind(pt.Elem()) != "" {
						vars[f.Name()] = env.readLoc(pv)
						vars["&"+f.Name()] = SV{V: pv, T: f.Type()}
						continue
					}
				}
			}
			vars[f.Name()] = SV{V: fv.Bindings[i], T: f.Type()}
		}
	}
	con := ex.g.contracts[funcKey(target)]
	if con == nil {
		return nil, nil, target
	}
	env.pkg = ex.pkgOf(target)
	return env, con, target
}

func (ex *Exec) callbackEnabled(s *State, instr ssa.Instruction, fval Val) {
	env, con, _ := ex.closureEnv(s, fval, ex.key+"@callback")
	if con == nil {
		return
	}
	ci, _ := instr.(ssa.CallInstruction)
	site := "callback"
	if ci != nil {
		site = ex.siteName(instr, calleeName(ci.Common()))
	}
	for _, r := range con.Requires {
		goal := ex.evalBool(env, r.Expr)
		ex.oblige(s, fmt.Sprintf("%s#callback_enabled.%s.%s", ex.key, site, r.Label), "pre", instr.Pos(), r.Tags, goal,
			"precondition of callback "+con.Key+" must hold from the moment it is scheduled: "+r.Src)
	}
}

// ---- sync.Map model ------------------------------------------------------------

func (ex *Exec) syncMapArrs(s *State, recv Val) (dn, vn string, dom, val, base Term) {
	p, ok := recv.(PtrV)
	if !ok {
		ex.fail("sync.Map receiver is not a pointer")
	}
	n := leafHeapName(p.Root, p.Path)
	dn = strings.TrimSuffix(n, "|") + "#dom|"
	vn = strings.TrimSuffix(n, "|") + "#val|"
	dom = s.heapCur(dn, SArray(SRef, SArray(SIface, SBool)))
	val = s.heapCur(vn, SArray(SRef, SArray(SIface, SIface)))
	return dn, vn, dom, val, p.Base
}

func (ex *Exec) syncMapRange(s *State, instr ssa.Instruction, args []Val) callOut {
	env, con, target := ex.closureEnv(s, args[1], ex.key+"@Range")
	if con == nil {
		name := "?"
		if target != nil {
			name = funcKey(target)
		}
		ex.fail("sync.Map.Range: closure %s has no contract (needs invariant/assigns clauses)", name)
	}
	ci, _ := instr.(ssa.CallInstruction)
	site := ex.siteName(instr, calleeName(ci.Common()))
	_, _, dom, val, base := ex.syncMapArrs(s, args[0])
	rng := &rangeCtx{dom: Select(dom, base), val: Select(val, base)}
	env.rng = rng
	// the closure's preconditions must hold for every entry of the map
	if len(con.Requires) > 0 && len(target.Params) == 2 {
		k0 := s.declare(ex.g.fresh("rk"), SIface)
		v0 := s.declare(ex.g.fresh("rv"), SIface)
		ex.assumeWF(s, k0, nil)
		ex.assumeWF(s, v0, nil)
		envR, _, _ := ex.closureEnv(s, args[1], ex.key+"@Range")
		envR.rng = rng
		envR.vars[target.Params[0].Name()] = SV{V: Scalar{k0}, T: target.Params[0].Type()}
		envR.vars[target.Params[1].Name()] = SV{V: Scalar{v0}, T: target.Params[1].Type()}
		isEntry := And(Select(rng.dom, k0), Eq(Select(rng.val, k0), v0))
		for _, r := range con.Requires {
			ex.oblige(s, fmt.Sprintf("%s#range.pre.%s.%s", ex.key, site, r.Label), "pre", instr.Pos(), r.Tags,
				Implies(isEntry, ex.evalBool(envR, r.Expr)), "precondition of Range closure "+con.Key+" for every entry: "+r.Src)
		}
	}
	for _, inv := range con.Invariants {
		ex.oblige(s, fmt.Sprintf("%s#range.init.%s.%s", ex.key, site, inv.Label), "inv", instr.Pos(), inv.Tags, ex.evalBool(env, inv.Expr),
			"invariant of Range closure "+con.Key+" on entry: "+inv.Src)
	}
	// havoc what the closure assigns (captured cells are written as *name -> deref(&name))
	for _, a := range con.Assigns {
		loc := env.evalLoc(a.Expr)
		for _, t := range env.locTargets(loc) {
			arr := s.heapCur(t.Name, SArray(SRef, t.Sort))
			nv := s.declare(ex.g.fresh("rv"), t.Sort)
			s.heapSet(t.Name, Store(arr, t.Base, nv))
		}
	}
	env2, _, _ := ex.closureEnv(s, args[1], ex.key+"@Range")
	env2.rng = rng
	for _, inv := range con.Invariants {
		s.assume(ex.evalBool(env2, inv.Expr))
	}
	ex.usedAssume["A-RANGE: sync.Map.Range calls the closure only with entries of the map, any number of times in any order"] = true
	return callOut{}
}
