package main

// Callbacks handed to timers / goroutines run as separate steps at any later
// moment, so the precondition of a callback under contract must hold from the
// moment it is handed over (obligation callback_enabled at the call site).

import (
	"fmt"
	"go/types"
	"strings"

	"golang.org/x/tools/go/ssa"
)

func (ex *Exec) callbackEnabled(s *State, instr ssa.Instruction, fval Val) {
	fv, ok := fval.(FuncV)
	if !ok || fv.Fn == nil {
		return
	}
	target := fv.Fn
	vars := map[string]SV{}
	env := &Env{ex: ex, s: s, vars: vars, pkg: ex.pkgOf(ex.fn), where: ex.key + "@callback"}
	if strings.Contains(target.Synthetic, "bound") && len(fv.Bindings) == 1 {
		// bound method value t.m: the callback is the method with receiver t
		recvT := target.FreeVars[0].Type()
		name := strings.TrimSuffix(target.Name(), "$bound")
		ms := ex.g.prog.MethodSets.MethodSet(recvT)
		for i := 0; i < ms.Len(); i++ {
			if ms.At(i).Obj().Name() == name {
				if m := ex.g.prog.MethodValue(ms.At(i)); m != nil {
					target = m
				}
			}
		}
		if target == fv.Fn || len(target.Params) == 0 {
			return
		}
		vars[target.Params[0].Name()] = SV{V: fv.Bindings[0], T: target.Params[0].Type()}
	} else {
		for i, f := range target.FreeVars {
			if i >= len(fv.Bindings) {
				break
			}
			if pv, ok := fv.Bindings[i].(PtrV); ok && len(pv.Path) == 0 {
				if pt, ok := f.Type().Underlying().(*types.Pointer); ok {
					if _, isStruct := pt.Elem().Underlying().(*types.Struct); !isStruct || modelKind(pt.Elem()) != "" {
						vars[f.Name()] = env.readLoc(pv)
						continue
					}
				}
			}
			vars[f.Name()] = SV{V: fv.Bindings[i], T: f.Type()}
		}
	}
	con := ex.g.contracts[funcKey(target)]
	if con == nil {
		return
	}
	env.pkg = ex.pkgOf(target)
	ci, _ := instr.(ssa.CallInstruction)
	site := "callback"
	if ci != nil {
		site = ex.siteName(instr, calleeName(ci.Common()))
	}
	for _, r := range con.Requires {
		goal := ex.evalBool(env, r.Expr)
		ex.oblige(s, fmt.Sprintf("%s#callback_enabled.%s.%s", ex.key, site, r.Label), "pre", instr.Pos(), r.Tags, goal,
			"precondition of callback "+con.Key+" must hold from the moment it is scheduled: "+r.Src)
	}
}
