package main

// Callbacks and closures handed to library code.
//
// * Callbacks handed to timers / goroutines run as separate steps at any later
//   moment, so the precondition of a callback under contract must hold from
//   the moment it is handed over (obligation callback_enabled at the call site).
// * sync.Map.Range(f) runs the closure f for an arbitrary number of entries in
//   arbitrary order: the closure's `invariant` clauses (over its captured
//   variables) are obliged on entry, the locations the closure assigns are
//   havocked, and the invariants are assumed afterwards. The closure itself is
//   verified as a function under contract (invariants assumed on entry and
//   obliged on return, with (key, value) an entry of the map).

import (
	"fmt"
	"go/types"
	"strings"

	"golang.org/x/tools/go/ssa"
)

// closureEnv builds the spec environment of a function value known to the
// executor: captured variables by name (current values), bound receiver for
// method values. Returns nil if the value has no contract.
func (ex *Exec) closureEnv(s *State, fval Val, where string) (*Env, *Contract, *ssa.Function) {
	fv, ok := fval.(FuncV)
	if !ok || fv.Fn == nil {
		return nil, nil, nil
	}
	target := fv.Fn
	vars := map[string]SV{}
	env := &Env{ex: ex, s: s, vars: vars, pkg: ex.pkgOf(ex.fn), where: where}
	if strings.Contains(target.Synthetic, "bound") && len(fv.Bindings) == 1 {
		recvT := target.FreeVars[0].Type()
		name := strings.TrimSuffix(target.Name(), "$bound")
		ms := ex.g.prog.MethodSets.MethodSet(recvT)
		for i := 0; i < ms.Len(); i++ {
			if ms.At(i).Obj().Name() == name {
				if m := ex.g.prog.MethodValue(ms.At(i)); m != nil {
					target = m
				}
			}
		}
		if target == fv.Fn || len(target.Params) == 0 {
			return nil, nil, nil
		}
		vars[target.Params[0].Name()] = SV{V: fv.Bindings[0], T: target.Params[0].Type()}
	} else {
		for i, f := range target.FreeVars {
			if i >= len(fv.Bindings) {
				break
			}
			if pv, ok := fv.Bindings[i].(PtrV); ok && len(pv.Path) == 0 {
				if pt, ok := f.Type().Underlying().(*types.Pointer); ok {
					if _, isStruct := pt.Elem().Underlying().(*types.Struct); !isStruct || modelKind(pt.Elem()) != "" {
						vars[f.Name()] = env.readLoc(pv)
						vars["&"+f.Name()] = SV{V: pv, T: f.Type()}
						continue
					}
				}
			}
			vars[f.Name()] = SV{V: fv.Bindings[i], T: f.Type()}
		}
	}
	con := ex.g.contracts[funcKey(target)]
	if con == nil {
		return nil, nil, target
	}
	env.pkg = ex.pkgOf(target)
	return env, con, target
}

func (ex *Exec) callbackEnabled(s *State, instr ssa.Instruction, fval Val) {
	env, con, _ := ex.closureEnv(s, fval, ex.key+"@callback")
	if con == nil {
		return
	}
	ci, _ := instr.(ssa.CallInstruction)
	site := "callback"
	if ci != nil {
		site = ex.siteName(instr, calleeName(ci.Common()))
	}
	for _, r := range con.Requires {
		goal := ex.evalBool(env, r.Expr)
		ex.oblige(s, fmt.Sprintf("%s#callback_enabled.%s.%s", ex.key, site, r.Label), "pre", instr.Pos(), r.Tags, goal,
			"precondition of callback "+con.Key+" must hold from the moment it is scheduled: "+r.Src)
	}
}

// ---- sync.Map model ------------------------------------------------------------

func (ex *Exec) syncMapArrs(s *State, recv Val) (dn, vn string, dom, val, base Term) {
	p, ok := recv.(PtrV)
	if !ok {
		ex.fail("sync.Map receiver is not a pointer")
	}
	n := leafHeapName(p.Root, p.Path)
	dn = strings.TrimSuffix(n, "|") + "#dom|"
	vn = strings.TrimSuffix(n, "|") + "#val|"
	dom = s.heapCur(dn, SArray(SRef, SArray(SIface, SBool)))
	val = s.heapCur(vn, SArray(SRef, SArray(SIface, SIface)))
	return dn, vn, dom, val, p.Base
}

func (ex *Exec) syncMapRange(s *State, instr ssa.Instruction, args []Val) callOut {
	env, con, target := ex.closureEnv(s, args[1], ex.key+"@Range")
	if con == nil {
		name := "?"
		if target != nil {
			name = funcKey(target)
		}
		ex.fail("sync.Map.Range: closure %s has no contract (needs invariant/assigns clauses)", name)
	}
	ci, _ := instr.(ssa.CallInstruction)
	site := ex.siteName(instr, calleeName(ci.Common()))
	_, _, dom, val, base := ex.syncMapArrs(s, args[0])
	rng := &rangeCtx{dom: Select(dom, base), val: Select(val, base)}
	env.rng = rng
	// the closure's preconditions must hold for every entry of the map
	if len(con.Requires) > 0 && len(target.Params) == 2 {
		k0 := s.declare(ex.g.fresh("rk"), SIface)
		v0 := s.declare(ex.g.fresh("rv"), SIface)
		ex.assumeWF(s, k0, nil)
		ex.assumeWF(s, v0, nil)
		envR, _, _ := ex.closureEnv(s, args[1], ex.key+"@Range")
		envR.rng = rng
		envR.vars[target.Params[0].Name()] = SV{V: Scalar{k0}, T: target.Params[0].Type()}
		envR.vars[target.Params[1].Name()] = SV{V: Scalar{v0}, T: target.Params[1].Type()}
		isEntry := And(Select(rng.dom, k0), Eq(Select(rng.val, k0), v0))
		for _, r := range con.Requires {
			ex.oblige(s, fmt.Sprintf("%s#range.pre.%s.%s", ex.key, site, r.Label), "pre", instr.Pos(), r.Tags,
				Implies(isEntry, ex.evalBool(envR, r.Expr)), "precondition of Range closure "+con.Key+" for every entry: "+r.Src)
		}
	}
	for _, inv := range con.Invariants {
		ex.oblige(s, fmt.Sprintf("%s#range.init.%s.%s", ex.key, site, inv.Label), "inv", instr.Pos(), inv.Tags, ex.evalBool(env, inv.Expr),
			"invariant of Range closure "+con.Key+" on entry: "+inv.Src)
	}
	// havoc what the closure assigns (captured cells are written as *name -> deref(&name))
	for _, a := range con.Assigns {
		loc := env.evalLoc(a.Expr)
		for _, t := range env.locTargets(loc) {
			arr := s.heapCur(t.Name, SArray(SRef, t.Sort))
			nv := s.declare(ex.g.fresh("rv"), t.Sort)
			s.heapSet(t.Name, Store(arr, t.Base, nv))
		}
	}
	env2, _, _ := ex.closureEnv(s, args[1], ex.key+"@Range")
	env2.rng = rng
	for _, inv := range con.Invariants {
		s.assume(ex.evalBool(env2, inv.Expr))
	}
	ex.usedAssume["A-RANGE: sync.Map.Range calls the closure only with entries of the map, any number of times in any order"] = true
	ex.rangeCompleteness(s, args, target, con, rng)
	return callOut{}
}

// rangeCompleteness: what the closure's postconditions say about the whole
// iteration. Range calls the closure for every entry until one call returns
// false. So afterwards either some call returned false - then the closure's
// postconditions with result == false hold in the final state, for some entry -
// or every entry was visited with result == true - then its postconditions
// with result == true hold for every entry. The second half is only usable for
// clauses about the entry itself and captured values the closure does not
// assign (their truth at visiting time is their truth now): a clause whose
// meaning changes when the closure's assigns are havocked is left out.
func (ex *Exec) rangeCompleteness(s *State, args []Val, target *ssa.Function, con *Contract, rng *rangeCtx) {
	if len(con.Ensures) == 0 || len(target.Params) != 2 || target.Signature.Results().Len() != 1 {
		return
	}
	mk := func(k Term, res Term) (*Env, bool) {
		e, _, _ := ex.closureEnv(s, args[1], ex.key+"@Range")
		if e == nil {
			return nil, false
		}
		e.rng = rng
		e.vars[target.Params[0].Name()] = SV{V: Scalar{k}, T: target.Params[0].Type()}
		e.vars[target.Params[1].Name()] = SV{V: Scalar{Select(rng.val, k)}, T: target.Params[1].Type()}
		rt := target.Signature.Results().At(0).Type()
		e.vars["result"] = SV{V: Scalar{res}, T: rt}
		e.vars["result0"] = SV{V: Scalar{res}, T: rt}
		return e, true
	}
	stopped := s.declare(ex.g.fresh("rstop"), SBool)
	// (a) stopped early: at some entry the closure returned false
	ks := s.declare(ex.g.fresh("rk"), SIface)
	ex.assumeWF(s, ks, nil)
	if envS, ok := mk(ks, TFalse); ok {
		conj := Select(rng.dom, ks)
		for _, e := range con.Ensures {
			if mentionsOld(e.Expr) {
				continue
			}
			conj = And(conj, ex.evalBool(envS, e.Expr))
		}
		s.assume(Implies(stopped, conj))
	}
	// (b) ran to the end: every entry was visited with result == true
	kq := s.declare(ex.g.fresh("rq"), SIface)
	assigned := map[string]bool{}
	var roots func(e *E)
	roots = func(e *E) {
		if e == nil {
			return
		}
		if e.Op == "id" {
			assigned[e.Name] = true
		}
		for _, a := range e.Args {
			roots(a)
		}
	}
	for _, a := range con.Assigns {
		roots(a.Expr)
	}
	if envC, ok := mk(kq, TTrue); ok {
		body := TTrue
		for _, e := range con.Ensures {
			if mentionsOld(e.Expr) || mentionsAny(e.Expr, assigned) {
				continue // not about the entry alone: its truth at visiting time is not its truth now
			}
			body = And(body, ex.evalBool(envC, e.Expr))
		}
		if body.S != "true" {
			b := "rqb_" + strings.TrimPrefix(kq.S, "rq")
			q := strings.ReplaceAll(Implies(Select(rng.dom, kq), body).S, kq.S, b)
			s.assume(Implies(Not(stopped), Term{fmt.Sprintf("(forall ((%s %s)) %s)", b, SIface, q), SBool}))
		}
	}
	ex.usedAssume["A-RANGE-ALL: sync.Map.Range calls the closure for every entry of the map until a call returns false (no concurrent modification during one step)"] = true
}
