package main

// Timer callbacks (time.AfterFunc) run at an arbitrary later moment, after any
// number of other steps. Checking their precondition where the timer is armed
// (callback_enabled) is therefore not enough: the precondition has to be an
// invariant. A callback declares it with `async [tags] label: A(x...)` over its
// receiver / parameters / captured variables. Three kinds of obligation follow:
//
//   F#async.<requires-label>      A implies every `requires` clause of F
//   G#stable.<F>.<label>          every function G under contract preserves A
//                                 for every object: a fresh x is chosen when G
//                                 is entered; A(x) at entry implies A(x) at
//                                 every blocking point, at every loop head and
//                                 back edge, and at every return (after a
//                                 blocking point or a loop havoc the premise
//                                 is A(x) in the havocked state: other steps,
//                                 resp. earlier iterations, preserve it by the
//                                 same obligation)
//   G#async_declared.<site>       a callback with preconditions handed to
//                                 time.AfterFunc must declare `async`

import (
	"fmt"
	"go/token"
	"go/types"
	"sort"

	"golang.org/x/tools/go/ssa"
)

type stabTrack struct {
	Con  *Contract
	Cl   *Clause
	Vars map[string]SV
	Prem Term
}

func (ex *Exec) asyncContracts() []*Contract {
	var out []*Contract
	for _, c := range ex.g.contracts {
		if len(c.Async) > 0 && c.Fn != nil {
			out = append(out, c)
		}
	}
	sort.Slice(out, func(i, j int) bool { return out[i].Key < out[j].Key })
	return out
}

// asyncVars: fresh symbolic values for the receiver, parameters and captured
// variables of callback f (a captured variable stands for its current value).
func (ex *Exec) asyncVars(s *State, f *ssa.Function) map[string]SV {
	vars := map[string]SV{}
	for _, p := range f.Params {
		vars[p.Name()] = SV{V: ex.freshVal(s, p.Type(), "ax_"+p.Name()), T: p.Type()}
	}
	for _, fv := range f.FreeVars {
		t := fv.Type()
		if pt, ok := t.Underlying().(*types.Pointer); ok {
			if _, isStruct := pt.Elem().Underlying().(*types.Struct); !isStruct || modelKind(pt.Elem()) != "" {
				t = pt.Elem()
			}
		}
		vars[fv.Name()] = SV{V: ex.freshVal(s, t, "ax_"+fv.Name()), T: t}
	}
	return vars
}

func (ex *Exec) stabEnv(s *State, tr *stabTrack) *Env {
	return &Env{ex: ex, s: s, vars: tr.Vars, oldNil: true, pkg: ex.pkgOf(tr.Con.Fn), where: ex.key + "@stable." + tr.Con.Key}
}

// asyncInit: at the entry of the function under verification.
func (ex *Exec) asyncInit(s *State) {
	if ex.con == nil || ex.dry || ex.con.Trusted {
		return
	}
	for _, c := range ex.asyncContracts() {
		if !ex.stabRelevant(c.Fn) {
			continue
		}
		for _, cl := range c.Async {
			tr := &stabTrack{Con: c, Cl: cl, Vars: ex.asyncVars(s, c.Fn)}
			tr.Prem = ex.evalBool(ex.stabEnv(s, tr), cl.Expr)
			s.Stab = append(s.Stab, tr)
		}
	}
}

// asyncOwn: the function's own `async` clauses imply its preconditions
// (checked before the preconditions are assumed).
func (ex *Exec) asyncOwn(s *State) {
	if ex.con == nil || ex.dry {
		return
	}
	if len(ex.con.Async) > 0 {
		env := ex.rootEnv(s, nil)
		prem := TTrue
		for _, a := range ex.con.Async {
			prem = And(prem, ex.evalBool(env, a.Expr))
		}
		for _, r := range ex.con.Requires {
			tags := append(append([]string(nil), r.Tags...), ex.con.Async[0].Tags...)
			ex.oblige(s, fmt.Sprintf("%s#async.%s", ex.key, r.Label), "pre", ex.fn.Pos(), tags, Implies(prem, ex.evalBool(env, r.Expr)),
				"a timer callback runs at an arbitrary later moment: its precondition must follow from its declared invariant (`async`): "+r.Src)
		}
	}
}

// stabCheck: the invariants of all timer callbacks hold here if they held at
// the last point where they were (re-)assumed.
func (ex *Exec) stabCheck(s *State, pos token.Pos, where string) {
	if ex.dry {
		return
	}
	for _, tr := range s.Stab {
		now := ex.evalBool(ex.stabEnv(s, tr), tr.Cl.Expr)
		if now.S == tr.Prem.S {
			continue // nothing the invariant reads has changed
		}
		ex.oblige(s, fmt.Sprintf("%s#stable.%s.%s", ex.key, tr.Con.Key, tr.Cl.Label), "stable", pos, tr.Cl.Tags, Implies(tr.Prem, now),
			"invariant of timer callback "+tr.Con.Key+" must be preserved ("+where+"): "+tr.Cl.Src)
	}
}

// stabRebase: after a havoc (blocking point, loop head) the premise is the
// invariant in the havocked state.
func (ex *Exec) stabRebase(s *State) {
	if ex.dry {
		return
	}
	for i, tr := range s.Stab {
		n := *tr
		n.Prem = ex.evalBool(ex.stabEnv(s, &n), tr.Cl.Expr)
		s.Stab[i] = &n
	}
}

// asyncDeclared: obligation at a time.AfterFunc call.
func (ex *Exec) asyncDeclared(s *State, instr ssa.Instruction, con *Contract, site string) {
	if con == nil || len(con.Requires) == 0 || len(con.Async) > 0 {
		return
	}
	ex.oblige(s, fmt.Sprintf("%s#async_declared.%s", ex.key, site), "pre", instr.Pos(), con.AllTags(), TFalse,
		"timer callback "+con.Key+" has preconditions but declares no `async` invariant they follow from")
}

// stabRelevant: can function g touch what the invariant of callback f reads?
// Only if the two packages see each other's types: same package, or one
// imports the other (directly or not).
func (ex *Exec) stabRelevant(f *ssa.Function) bool {
	pf, pg := ex.pkgOf(f), ex.pkgOf(ex.fn)
	if pf == nil || pg == nil || pf == pg {
		return true
	}
	return importsPkg(pf, pg, map[*types.Package]bool{}) || importsPkg(pg, pf, map[*types.Package]bool{})
}

func importsPkg(a, b *types.Package, seen map[*types.Package]bool) bool {
	if seen[a] {
		return false
	}
	seen[a] = true
	for _, i := range a.Imports() {
		if i == b || importsPkg(i, b, seen) {
			return true
		}
	}
	return false
}

// stabSnapshot / stabAssumePreserved: around a call whose callee is verified
// separately (contract, opaque function value). The callee preserves every
// tracked invariant - that is its own `stable` obligation - so the caller
// assumes exactly that.
func (ex *Exec) stabSnapshot(s *State) []Term {
	if ex.dry || len(s.Stab) == 0 {
		return nil
	}
	out := make([]Term, len(s.Stab))
	for i, tr := range s.Stab {
		out[i] = ex.evalBool(ex.stabEnv(s, tr), tr.Cl.Expr)
	}
	return out
}

func (ex *Exec) stabAssumePreserved(s *State, before []Term) {
	if before == nil || len(before) != len(s.Stab) {
		return
	}
	for i, tr := range s.Stab {
		now := ex.evalBool(ex.stabEnv(s, tr), tr.Cl.Expr)
		if now.S != before[i].S {
			s.assume(Implies(before[i], now))
		}
	}
}
