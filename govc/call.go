package main

// Calls: intrinsics (trusted models), contracts (modular), inlining
// (functions marked inline and synthetic wrappers), dynamic dispatch.

import (
	"fmt"
	"go/types"
	"sort"
	"strings"

	"golang.org/x/tools/go/ssa"
)

func (ex *Exec) callArgs(s *State, c *ssa.CallCommon) []Val {
	var args []Val
	if c.IsInvoke() {
		args = append(args, ex.val(s, c.Value))
	}
	for _, a := range c.Args {
		args = append(args, ex.val(s, a))
	}
	return args
}

// finishCall binds the result and advances.
func (ex *Exec) finishCall(s *State, instr ssa.Instruction, res ssa.Value, stay bool, v Val) {
	fr := s.top()
	if res != nil && v != nil {
		fr.Regs[res] = v
	}
	if !stay {
		fr.Idx++
	}
	ex.afterCall(s, instr, v)
}

// afterCall runs the "after" site items of the function under verification.
func (ex *Exec) afterCall(s *State, instr ssa.Instruction, v Val) {
	fr := s.top()
	if fr.IsRoot && ex.con != nil && len(ex.con.Ghost) > 0 {
		if ci, ok := instr.(ssa.CallInstruction); ok {
			s.CurRet = nil
			if v != nil {
				if val, ok := instr.(ssa.Value); ok {
					s.CurRet = &SV{V: v, T: val.Type()}
				}
			}
			ex.runGhost(s, ex.siteName(instr, calleeName(ci.Common())), "after", nil)
		}
	}
}

// beforeCall records the call's arguments and runs the "before" site items.
func (ex *Exec) beforeCall(s *State, instr ssa.Instruction, c *ssa.CallCommon, args []Val) {
	fr := s.top()
	if !fr.IsRoot || ex.con == nil || len(ex.con.Ghost) == 0 {
		return
	}
	var sv []SV
	i := 0
	if c.IsInvoke() {
		sv = append(sv, SV{V: args[0], T: c.Value.Type()})
		i = 1
	}
	for j, a := range c.Args {
		sv = append(sv, SV{V: args[i+j], T: a.Type()})
	}
	s.CurArgs = sv
	s.CurRet = nil
	site := ex.siteName(instr, calleeName(c))
	ex.runGhost(s, site, "before", nil)
	if ex.con.StopAt != "" && ex.con.StopAt == site && !ex.dry {
		// prefix verification: the path ends here (what follows is covered by
		// the `flows` obligations on the SSA)
		regs := map[string]ssa.Value{}
		for n, nv := range fr.Names {
			regs[n] = nv.Reg
		}
		ex.stopRegs = append(ex.stopRegs, regs)
		s.Dead = true
	}
}

// siteName: stable call-site name "<calleeShort>.<n>" where n counts the
// static call sites of that callee in the function, in block order.
func (ex *Exec) siteName(instr ssa.Instruction, callee string) string {
	if n, ok := ex.callOrd[instr]; ok {
		return n
	}
	fn := instr.Parent()
	n := 0
	for _, b := range fn.Blocks {
		for _, in := range b.Instrs {
			ci, ok := in.(ssa.CallInstruction)
			if !ok {
				continue
			}
			if calleeName(ci.Common()) != callee {
				continue
			}
			if in == instr {
				name := fmt.Sprintf("%s.%d", callee, n)
				ex.callOrd[instr] = name
				return name
			}
			n++
		}
	}
	return callee + ".?"
}

func calleeName(c *ssa.CallCommon) string {
	if c.IsInvoke() {
		return c.Method.Name()
	}
	switch f := c.Value.(type) {
	case *ssa.Function:
		return f.Name()
	case *ssa.Builtin:
		return f.Name()
	case *ssa.MakeClosure:
		return f.Fn.Name()
	}
	return "dyn"
}

func (ex *Exec) doCall(s *State, instr ssa.Instruction, c *ssa.CallCommon, res ssa.Value, preArgs []Val, stay bool) []*State {
	args := preArgs
	if args == nil {
		args = ex.callArgs(s, c)
	}
	ex.beforeCall(s, instr, c, args)
	if s.Dead {
		return nil // the contract's stop site
	}
	if c.IsInvoke() {
		return ex.doInvoke(s, instr, c, res, args, stay)
	}
	switch f := c.Value.(type) {
	case *ssa.Builtin:
		v := ex.doBuiltin(s, instr, f, c, args)
		ex.finishCall(s, instr, res, stay, v)
		return nil
	case *ssa.Function:
		return ex.callFunc(s, instr, f, nil, res, args, stay)
	case *ssa.MakeClosure:
		fv := ex.val(s, f).(FuncV)
		return ex.callFunc(s, instr, fv.Fn, fv.Bindings, res, args, stay)
	default:
		// dynamic function value
		fvv := ex.val(s, c.Value)
		if fv, ok := fvv.(FuncV); ok && fv.Fn != nil {
			return ex.callFunc(s, instr, fv.Fn, fv.Bindings, res, args, stay)
		}
		return ex.callOpaqueFunc(s, instr, c, ex.asScalar(fvv), res, args, stay)
	}
}

func (ex *Exec) callFunc(s *State, instr ssa.Instruction, f *ssa.Function, bindings []Val, res ssa.Value, args []Val, stay bool) []*State {
	key := funcKey(f)
	// 1. intrinsics (trusted models of code outside /repo, logging, sync)
	if h := ex.intrinsic(f); h != nil {
		ex.usedTrusted[intrinsicName(f)] = true
		out := h(ex, s, instr, args)
		if out.forks != nil {
			for i, st := range out.forks {
				ex.finishCall(st, instr, res, stay, out.forkVals[i])
			}
			return out.forks
		}
		if s.Dead {
			return nil
		}
		ex.finishCall(s, instr, res, stay, out.v)
		return nil
	}
	// 2. contract (modular)
	if con := ex.g.contracts[key]; con != nil && !con.Inline {
		return ex.applyContract(s, instr, f, con, res, args, stay)
	}
	// 3. inline: marked functions, synthetic wrappers/thunks/bound methods
	marked := (ex.g.contracts[key] != nil && ex.g.contracts[key].Inline) || ex.g.inlineSet[key] || f.Synthetic != "" && isRepoWrapper(f)
	if !marked && ex.g.contracts[key] == nil && isRepoFn(f) && autoInlinable(s, f) {
		// A small loop-free helper of the repository without a contract (for
		// instance one a refactoring has just extracted) is verified inside
		// its caller, like a function marked `inline`: the caller's
		// obligations then speak about the helper's real body.
		marked = true
		ex.usedAssume["auto-inlined (loop-free repository function without contract, verified inside its callers): "+key] = true
	}
	if marked {
		if len(f.Blocks) == 0 {
			ex.fail("inline: no body for %s", key)
		}
		if len(s.Stack) > 12 {
			ex.fail("inline depth exceeded at %s", key)
		}
		nf := &Frame{Fn: f, Regs: map[ssa.Value]Val{}, Block: f.Blocks[0], LoopSeen: map[*ssa.BasicBlock]bool{}, RetTo: res, RetStay: stay, CallInstr: instr}
		if len(args) != len(f.Params) {
			ex.fail("inline %s: %d args for %d params", key, len(args), len(f.Params))
		}
		for i, p := range f.Params {
			nf.Regs[p] = args[i]
		}
		for i, fv := range f.FreeVars {
			nf.Regs[fv] = bindings[i]
		}
		s.Stack = append(s.Stack, nf)
		return nil
	}
	if ex.con != nil && ex.con.OpaqueCalls {
		// `opaquecalls`: set-up code of the command-line tools (certificates,
		// loggers, signal handling, privileges, address resolution, the gateway
		// or client it finally starts). Such a call yields unconstrained results
		// and is assumed not to change what the contract speaks about.
		ex.usedAssume["A-OPAQUECALL: in "+ex.key+" the call of "+key+" yields unconstrained results and does not modify the objects the contract speaks about"] = true
		sig := f.Signature
		var rv Val
		switch sig.Results().Len() {
		case 0:
		case 1:
			rv = ex.freshVal(s, sig.Results().At(0).Type(), "oc")
		default:
			rv = ex.freshVal(s, sig.Results(), "oc")
		}
		ex.finishCall(s, instr, res, stay, rv)
		return nil
	}
	if !isRepoFn(f) {
		ex.fail("call to external function without model: %s (at %s)", f.String(), ex.pos(instr.Pos()))
	}
	ex.fail("call to %s which has no contract and is not marked inline (at %s)", key, ex.pos(instr.Pos()))
	return nil
}

// autoInlinable: has a body, no loop, is not already being inlined
// (recursion) and is small.
func autoInlinable(s *State, f *ssa.Function) bool {
	if !loopFreeSmall(f) {
		return false
	}
	for _, fr := range s.Stack {
		if fr.Fn == f {
			return false
		}
	}
	return true
}

func loopFreeSmall(f *ssa.Function) bool {
	if len(f.Blocks) == 0 || len(f.Blocks) > 40 {
		return false
	}
	n := 0
	for _, b := range f.Blocks {
		n += len(b.Instrs)
		for _, succ := range b.Succs {
			if succ.Dominates(b) {
				return false // back edge: a loop needs an invariant, hence a contract
			}
		}
	}
	return n <= 250
}

func isRepoWrapper(f *ssa.Function) bool {
	// wrappers (promoted methods), bound-method closures, thunks, generics instances
	return strings.Contains(f.Synthetic, "wrapper") || strings.Contains(f.Synthetic, "bound") || strings.Contains(f.Synthetic, "thunk")
}

// doInvoke: interface method call.
func (ex *Exec) doInvoke(s *State, instr ssa.Instruction, c *ssa.CallCommon, res ssa.Value, args []Val, stay bool) []*State {
	recv := ex.asScalar(args[0])
	it := c.Value.Type()
	// intrinsic interface methods (external interfaces)
	if h := ex.intrinsicInvoke(it, c.Method); h != nil {
		ex.usedTrusted[fmt.Sprintf("%s.%s", typeKey(it), c.Method.Name())] = true
		out := h(ex, s, instr, args)
		if out.forks != nil {
			for i, st := range out.forks {
				ex.finishCall(st, instr, res, stay, out.forkVals[i])
			}
			return out.forks
		}
		if s.Dead {
			return nil
		}
		ex.finishCall(s, instr, res, stay, out.v)
		return nil
	}
	// nil receiver panics
	ex.panicObl(s, instr, "nilderef", Not(Eq(ITag(recv), IntLit(0))))
	iface := it.Underlying().(*types.Interface)
	impls := ex.implementers(iface)
	if len(impls) == 0 && ex.con != nil && ex.con.OpaqueCalls {
		// `opaquecalls`: a method of an external interface without a model
		// yields unconstrained results (listener set-up and Accept)
		ex.usedAssume["A-OPAQUECALL: in "+ex.key+" the call of "+typeKey(it)+"."+c.Method.Name()+" yields unconstrained results and does not modify the objects the contract speaks about"] = true
		sig := c.Signature()
		var rv Val
		switch sig.Results().Len() {
		case 0:
		case 1:
			rv = ex.freshVal(s, sig.Results().At(0).Type(), "oc")
		default:
			rv = ex.freshVal(s, sig.Results(), "oc")
		}
		ex.finishCall(s, instr, res, stay, rv)
		return nil
	}
	if len(impls) == 0 {
		ex.fail("invoke %s.%s: no implementers", it, c.Method.Name())
	}
	ex.usedAssume["A-CLOSED: interface implementers are those in the loaded program"] = true
	var out []*State
	for _, t := range impls {
		ms := ex.g.prog.MethodSets.MethodSet(t)
		sel := ms.Lookup(c.Method.Pkg(), c.Method.Name())
		if sel == nil {
			continue
		}
		m := ex.g.prog.MethodValue(sel)
		if m == nil {
			continue
		}
		st := s.clone()
		st.assume(Eq(ITag(recv), IntLit(int64(ex.g.tags.tag(t)))))
		st.Path = append(st.Path, fmt.Sprintf("dyn:%s", shortPkg(typeKey(t))))
		if !ex.g.feasible(st) {
			// the dynamic type is excluded by the path condition
			continue
		}
		payload := ex.ifacePayload(st, recv, t)
		if p, ok := payload.(PtrV); ok {
			// interface values never hold typed nil pointers (enforced at
			// every MakeInterface in /repo: obligation ifacenonnil)
			st.assume(Not(Eq(p.Base, TNilR)))
			ex.usedAssume["A-TYPEDNIL: interface values reaching /repo code from outside hold no typed nil pointers (enforced for values created in /repo)"] = true
		}
		a2 := append([]Val{payload}, args[1:]...)
		sub := ex.callFunc(st, instr, m, nil, res, a2, stay)
		if sub == nil {
			if !st.Dead {
				out = append(out, st)
			}
		} else {
			out = append(out, sub...)
		}
	}
	s.Dead = true
	if len(out) == 0 {
		return []*State{}
	}
	return out
}

func (ex *Exec) doBuiltin(s *State, instr ssa.Instruction, b *ssa.Builtin, c *ssa.CallCommon, args []Val) Val {
	switch b.Name() {
	case "len":
		x := ex.asScalar(args[0])
		switch x.Sort {
		case SSlice:
			return Scalar{SlLen(x)}
		case SStr:
			return Scalar{StrLen(x)}
		case SRef:
			// map len: opaque non-negative
			v := s.declare(ex.g.fresh("maplen"), SBV(64))
			s.assume(BVSle(BVLit(0, 64), v))
			return Scalar{v}
		}
	case "cap":
		x := ex.asScalar(args[0])
		if x.Sort == SSlice {
			return Scalar{SlCap(x)}
		}
	case "append":
		return ex.doAppend(s, instr, c, args)
	case "delete":
		ex.guardMapWrite(s, c.Args[0])
		mt := c.Args[0].Type().Underlying().(*types.Map)
		m := ex.asScalar(args[0])
		k := ex.asScalar(args[1])
		dn, _, dom, _, _, _ := ex.mapArrs(s, mt)
		// delete on nil map is a no-op
		s.heapSet(dn, Ite(Eq(m, TNilR), dom, Store(dom, m, Store(Select(dom, m), k, TFalse))))
		return nil
	case "close":
		ch := ex.asScalar(args[0])
		ex.panicObl(s, instr, "closeclosed", And(Not(Eq(ch, TNilR)), Not(ex.chanClosed(s, ch))))
		ex.setChanClosed(s, ch)
		return nil
	case "copy":
		ex.fail("builtin copy unsupported")
	case "ssa:wrapnilchk":
		p := args[0]
		if pv, ok := p.(PtrV); ok {
			ex.panicObl(s, instr, "nilderef", Not(Eq(pv.Base, TNilR)))
		}
		return p
	case "print", "println":
		return nil
	case "min", "max":
		ex.fail("builtin %s unsupported", b.Name())
	}
	ex.fail("builtin %s unsupported (arg sorts)", b.Name())
	return nil
}

// append(s, elems...) with Go's semantics abstracted: the result is a fresh
// backing store holding old content followed by the new elements (sound
// over-approximation of both the in-place and the reallocating case for
// readers of the result; the in-place write into spare capacity is not
// modelled -- no anchored code reads spare capacity through an alias).
func (ex *Exec) doAppend(s *State, instr ssa.Instruction, c *ssa.CallCommon, args []Val) Val {
	st := c.Args[0].Type().Underlying().(*types.Slice)
	a := ex.asScalar(args[0])
	b := ex.asScalar(args[1])
	if b.Sort == SStr {
		ex.fail("append(bytes, string...) unsupported")
	}
	name, m, es := ex.memArr(s, st.Elem())
	base := ex.newRef(s)
	content := s.declare(ex.g.fresh("app"), SArray(SBV(64), es))
	i := ex.g.fresh("i")
	la, lb := SlLen(a), SlLen(b)
	s.assume(Term{fmt.Sprintf("(forall ((%s (_ BitVec 64))) (! (and (=> (bvult %s %s) (= (select %s %s) (select (select %s %s) (bvadd %s %s)))) (=> (and (bvule %s %s) (bvult %s (bvadd %s %s))) (= (select %s %s) (select (select %s %s) (bvadd %s (bvsub %s %s)))))) :pattern ((select %s %s))))",
		i,
		i, la.S, content.S, i, m.S, SlBase(a).S, SlOff(a).S, i,
		la.S, i, i, la.S, lb.S, content.S, i, m.S, SlBase(b).S, SlOff(b).S, i, la.S,
		content.S, i), SBool})
	m1 := Store(m, base, content)
	nl := BVAdd(la, lb)
	nc := s.declare(ex.g.fresh("cap"), SBV(64))
	s.assume(And(BVSle(nl, nc), BVUle(nc, BVLit(1<<41, 64))))
	// Go semantics: when the capacity suffices the elements are written in
	// place, behind the current length, into the backing array the argument
	// shares with every slice derived from it (other elements unchanged);
	// otherwise a fresh array is allocated. Both cases in one term.
	if es != SBV(8) {
		// Only byte slices get the exact treatment: they are the ones that
		// alias data of other owners (configured passwords, payloads, decoded
		// datagrams). For other element types the result is modelled as a
		// fresh array (A-APPEND): the only such append in the repository grows
		// handler1.pktBuffer, whose backing array nothing else refers to.
		s.heapSet(name, m1)
		ex.usedAssume["A-APPEND: append to a slice whose elements are not bytes is modelled as yielding a fresh backing array (no aliasing through spare capacity); byte slices are modelled exactly (in place when the capacity suffices)"] = true
		return Scalar{MkSlice(base, BVLit(0, 64), nl, nc)}
	}
	fits := And(Not(Eq(SlBase(a), TNilR)), BVUle(nl, SlCap(a)))
	inplace := s.declare(ex.g.fresh("apl"), SArray(SBV(64), es))
	k := ex.g.fresh("k")
	start := BVAdd(SlOff(a), la)
	s.assume(Term{fmt.Sprintf("(forall ((%s (_ BitVec 64))) (! (= (select %s %s) (ite (and (bvule %s %s) (bvult %s (bvadd %s %s))) (select (select %s %s) (bvadd %s (bvsub %s %s))) (select (select %s %s) %s))) :pattern ((select %s %s))))",
		k, inplace.S, k,
		start.S, k, k, start.S, lb.S,
		m.S, SlBase(b).S, SlOff(b).S, k, start.S,
		m.S, SlBase(a).S, k,
		inplace.S, k), SBool})
	s.heapSet(name, Store(m1, SlBase(a), Ite(fits, inplace, Select(m1, SlBase(a)))))
	fresh := MkSlice(base, BVLit(0, 64), nl, nc)
	same := MkSlice(SlBase(a), SlOff(a), nl, SlCap(a))
	return Scalar{Ite(fits, same, fresh)}
}

// ---- channels (signal-only) -------------------------------------------------------

func (ex *Exec) chanClosed(s *State, ch Term) Term {
	arr := s.heapCur("|Chan:closed|", SArray(SRef, SBool))
	return Select(arr, ch)
}

func (ex *Exec) setChanClosed(s *State, ch Term) {
	arr := s.heapCur("|Chan:closed|", SArray(SRef, SBool))
	s.heapSet("|Chan:closed|", Store(arr, ch, TTrue))
}

// yield: a blocking point of the function under verification. While the call
// blocks, other steps (receive loop, timer callbacks, other API calls) run:
// everything on the heap may have changed. What is known afterwards are the
// function's `rely` clauses (old() = the state just before blocking), which
// are assumptions about those other steps (A-RELY), not proved here.
func (ex *Exec) yield(s *State) {
	if ex.con == nil || len(ex.con.Rely) == 0 || !s.top().IsRoot {
		return
	}
	if ex.dry {
		ex.dryYield = true
	}
	ex.stabCheck(s, ex.fn.Pos(), "before a blocking point")
	snap := make(map[string]Term, len(s.Heap))
	var names []string
	for k, v := range s.Heap {
		snap[k] = v
		names = append(names, k)
	}
	sort.Strings(names)
	for _, n := range names {
		s.heapSet(n, s.declare(ex.g.fresh("yv"), s.Heap[n].Sort))
	}
	s.Epoch++
	s.Alloc += 1 << 20 // objects other steps allocated meanwhile
	env := ex.rootEnv(s, nil)
	env.oldHeap = snap
	env.oldNil = false
	for _, r := range ex.con.Rely {
		if ex.mentionsUnboundSiteLet(s, r.Expr) {
			continue // about a value this path has not created yet
		}
		s.assume(ex.evalBool(env, r.Expr))
	}
	ex.stabRebase(s)
	ex.usedAssume["A-RELY: while "+ex.key+" blocks, other steps of the same client or session run; afterwards only its rely clauses are assumed (they restate what every step's contract preserves: the invariant, append-only traces, completed exchanges stay completed)"] = true
}

func (ex *Exec) doRecv(s *State, in *ssa.UnOp) Val {
	// blocking receive: continues only when the channel is closed
	// (signal-only channels) -- value is zero
	ex.yield(s)
	ch := ex.scalar(s, in.X)
	s.assume(ex.chanClosed(s, ch))
	ex.usedAssume["A-SIGNALCHAN: channels are signal-only (close/receive); a blocking receive continues only on a closed channel"] = true
	et := in.X.Type().Underlying().(*types.Chan).Elem()
	v := ex.zeroVal(et)
	if in.CommaOk {
		return TupleV{v, Scalar{TFalse}}
	}
	return v
}

func (ex *Exec) doSelect(s *State, in *ssa.Select) Val {
	// Only the shape `select { case <-ch: ...; default: ... }` and blocking
	// multi-receive are supported: index = fresh; case i chosen only if
	// chan i is closed; default (-1) only if non-blocking and none closed.
	if in.Blocking {
		ex.yield(s)
	}
	idx := s.declare(ex.g.fresh("sel"), SBV(64))
	var conds []Term
	var anyClosed []Term
	for i, st := range in.States {
		if st.Dir != types.RecvOnly {
			// a send case: the channel's content is not modelled, the case may
			// be taken at any time (it may also never be ready: the other
			// cases stay possible)
			conds = append(conds, Eq(idx, BVLit(uint64(i), 64)))
			anyClosed = append(anyClosed, s.declare(ex.g.fresh("ready"), SBool))
			ex.usedAssume["A-VALUECHAN: a send in a select may be taken at any time; what the channel holds is not modelled"] = true
			continue
		}
		ch := ex.scalar(s, st.Chan)
		if isValueChan(st.Chan.Type()) {
			// a channel that carries values (state notifications, ticks): the
			// case may be taken at any time, with an unconstrained value
			conds = append(conds, Eq(idx, BVLit(uint64(i), 64)))
			anyClosed = append(anyClosed, s.declare(ex.g.fresh("ready"), SBool))
			ex.usedAssume["A-VALUECHAN: a receive from a channel that carries values may deliver any value of its type at any time"] = true
			continue
		}
		conds = append(conds, And(Eq(idx, BVLit(uint64(i), 64)), ex.chanClosed(s, ch)))
		anyClosed = append(anyClosed, ex.chanClosed(s, ch))
	}
	if !in.Blocking {
		conds = append(conds, And(Eq(idx, App(SBV(64), "bvneg", BVLit(1, 64))), Not(Or(anyClosed...))))
	}
	s.assume(Or(conds...))
	ex.usedAssume["A-SIGNALCHAN: channels are signal-only (close/receive); a blocking receive continues only on a closed channel"] = true
	tv := TupleV{Scalar{idx}, Scalar{TFalse}}
	for _, st := range in.States {
		if st.Dir != types.RecvOnly {
			continue // only receive cases contribute a value to the result tuple
		}
		et := st.Chan.Type().Underlying().(*types.Chan).Elem()
		if _, basic := et.Underlying().(*types.Basic); basic && isValueChan(st.Chan.Type()) {
			tv = append(tv, ex.freshVal(s, et, "recv"))
			continue
		}
		tv = append(tv, ex.zeroVal(et))
	}
	return tv
}

// isValueChan: the channel's element type is not the empty struct (channels of
// struct{} are signal-only: closed, never sent on).
func isValueChan(t types.Type) bool {
	ct, ok := t.Underlying().(*types.Chan)
	if !ok {
		return false
	}
	if st, ok := ct.Elem().Underlying().(*types.Struct); ok && st.NumFields() == 0 {
		return false
	}
	return true
}

// ---- map range ---------------------------------------------------------------------

func (ex *Exec) doRange(s *State, in *ssa.Range) Val {
	mt, ok := in.X.Type().Underlying().(*types.Map)
	if !ok {
		ex.fail("range over string unsupported")
	}
	m := ex.scalar(s, in.X)
	ks := sortOf(mt.Key())
	empty := Term{fmt.Sprintf("((as const (Array %s Bool)) false)", ks), SArray(ks, SBool)}
	// the visited set lives in the state (not in the iterator value) so that
	// the loop treatment havocs it at the loop head
	s.Ghost["visited:"+in.Name()] = empty
	return RangeIter{MapRef: m, MapType: mt, Visited: empty}
}

func (ex *Exec) doNext(s *State, in *ssa.Next) Val {
	it, ok := ex.val(s, in.Iter).(RangeIter)
	if !ok {
		ex.fail("next on %T", ex.val(s, in.Iter))
	}
	fr := s.top()
	if v, ok := s.Ghost["visited:"+in.Iter.Name()]; ok {
		it.Visited = v
	}
	_, _, dom, val, ks, vs := ex.mapArrs(s, it.MapType)
	okc := s.declare(ex.g.fresh("more"), SBool)
	k := s.declare(ex.g.fresh("rk"), ks)
	ex.assumeWF(s, k, it.MapType.Key())
	d := Select(dom, it.MapRef)
	// ok ==> k in dom, not visited ; !ok ==> visited covers dom
	j := ex.g.fresh("j")
	s.assume(Implies(okc, And(Not(Eq(it.MapRef, TNilR)), Select(d, k), Not(Select(it.Visited, k)))))
	s.assume(Implies(Not(okc), Or(Eq(it.MapRef, TNilR), Term{fmt.Sprintf("(forall ((%s %s)) (! (=> (select %s %s) (select %s %s)) :pattern ((select %s %s))))", j, ks, d.S, j, it.Visited.S, j, d.S, j), SBool})))
	v := Select(Select(val, it.MapRef), k)
	if vs == SRef || vs == SSlice || vs == SIface || vs == SStr {
		ex.assumeWF(s, v, it.MapType.Elem())
	}
	s.Ghost["visited:"+in.Iter.Name()] = Ite(okc, Store(it.Visited, k, TTrue), it.Visited)
	_ = fr
	var vv Val = Scalar{v}
	if pt, ok := it.MapType.Elem().Underlying().(*types.Pointer); ok {
		vv = PtrV{Base: v, Root: pt.Elem()}
	}
	return TupleV{Scalar{okc}, Scalar{k}, vv}
}
