package main

// Generic per-property driver: select the functions under contract for the
// property, generate and discharge obligations, apply known findings,
// replay counterexamples, write evidence (DESIGN.md section 5).

import (
	"encoding/json"
	"fmt"
	"os"
	"path/filepath"
	"sort"
	"strings"
	"sync"
	"time"
)

type propConfig struct {
	// replay builds and runs a Go test reproducing a failed obligation on
	// the real code. Returns (replay file path, confirmed, log).
	replay func(rc *replayCtx, o *Obligation) (string, bool, string)
	// extra obligations not tied to one function (lemmas, sweeps)
	extra func(g *G, idx funcIndex, cs *contractSet, prop string) ([]*Obligation, []string, error)
	undecided string
	// every function under contract in this package takes part (its frame and
	// the other structural obligations), whatever its clauses are tagged with
	pkgAll string
}

var propConfigs = map[string]*propConfig{
	"C20": {replay: replayUnpack, undecided: "panics inside String() methods reached only through logging (A-LOG)"},
	"C05": {replay: replayC05},
	"C18": {replay: replayC18, undecided: "real interleavings and data races (timer field read/written without a common lock): contracts cover every sequence of Success/Fail/Proceed/expiry calls and the timer-fires-before-assignment schedule, not arbitrary intra-call interleavings"},
	"C19": {replay: replayC18, undecided: "that time.AfterFunc fires after exactly the armed delay (A-TIMER); counts, order, armed delay and reset on progress are proved"},
	"C14": {extra: sweepBrokerWrites, undecided: "that the broker's TCP connection is closed on every session end (close is in run's deferred function, outside the step contracts); only what is written before the close is decided"},
	"C23": {extra: sweepDatagramSenders, undecided: "datagrams written by anything other than snSend / Client.send (the DTLS layer below them); Pack of packet types neither side sends"},
	"C24": {extra: sweepSendScope, undecided: "byte-level serialisation of the packet (paho's Write, trusted A-PAHO); UTF-8 well-formedness and the U+0000 ban of MQTT strings; validity of predefined topic names from the configuration (A-CFG)"},
	"C33": {undecided: "the timing half: that a PINGREQ is sent at least once per KeepAlive period while active (ticker, elapsed time: A-TIMER); interleavings inside one loop iteration (between the state check and the send: A-ATOMIC); that no other API call can fail because of a ping in progress, beyond the clause that an abandoned ping does not end the client"},
	"C32": {undecided: "that gateway and client really run with the same configuration (the property's premise); the composition itself is the observation that both sides' contracts resolve a predefined ID with the same specification function nameSpec(configuration, client ID, ID) and a short ID with the proved two-octet coding"},
	"C13": {undecided: "the time bound (connection poll interval plus pending send); goroutines not in the session's errgroup (per-exchange watcher goroutines and timers end on context cancellation: not decided); that every cause reaches the errgroup: decided for a failing step (receive loops under contract), not for a silent peer"},
	"C15": {pkgAll: "gateway.", extra: sweepIsolation, undecided: "the UDP/DTLS demultiplexer (pion) that maps peer addresses to connections; writes through slices aliasing shared configuration data (A-APPEND); timing interference (shared CPU, shared broker)"},
	"C30": {undecided: "what the YAML decoder and the option parser's loop compute (A-YAML, A-PARSE); the tools' flag plumbing through urfave/cli (A-CLI)"},
	"C31": {extra: sweepAuthOnlyInConnect, undecided: "flag and environment-variable resolution inside urfave/cli (A-CLI); DTLS itself"},
	"C17": {undecided: "real loss timing: which retransmissions happen is the retry budget of C19 under A-TIMER; the API's blocking points are treated with rely clauses (A-RELY)"},
	"C27": {undecided: "which of several matching callbacks is invoked (the property does not ask)"},
	"C29": {undecided: "real interleavings: atomicity is derived from the proved lock coverage plus A-MUTEX / A-ATOMICPKG, not explored"},
}

type knownFinding struct {
	Property   string `json:"property"`
	Obligation string `json:"obligation"`
	Witness    string `json:"witness"` // SMT predicate over the query's constants; "" = whole obligation
	Text       string `json:"text"`
}

type knownFile struct {
	Findings []knownFinding `json:"findings"`
	Fixed    []string       `json:"fixed"`
}

func loadKnown(out string) knownFile {
	var kf knownFile
	b, err := os.ReadFile(filepath.Join(out, "known_findings.json"))
	if err == nil {
		json.Unmarshal(b, &kf)
	}
	return kf
}

type oblSummary struct {
	Name   string  `json:"name"`
	Kind   string  `json:"kind"`
	Result string  `json:"result"`
	Solver string  `json:"solver"`
	Secs   float64 `json:"secs"`
	Paths  int     `json:"paths"`
}

func (pc *propConfig) run(prop string, g *G, idx funcIndex, cs *contractSet, out, replayDir, tier string, seed int, t0 time.Time, failClosed func(string) int) int {
	if pc == nil {
		pc = &propConfig{}
	}
	thorough := tier == "thorough"
	// functions under contract for this property
	var keys []string
	for k, c := range g.contracts {
		if c.Trusted || c.Inline {
			continue
		}
		if hasTag(c.AllTags(), prop) || (pc.pkgAll != "" && strings.HasPrefix(k, pc.pkgAll)) {
			keys = append(keys, k)
		}
	}
	sort.Strings(keys)
	if len(keys) == 0 && pc.extra == nil {
		return failClosed("no function under contract carries tag " + prop)
	}
	var all []*Obligation
	trusted := map[string]bool{}
	assumes := map[string]bool{}
	var mu sync.Mutex
	var wg sync.WaitGroup
	var errs []string
	pathsTotal := 0
	sem := make(chan struct{}, 8)
	for _, k := range keys {
		wg.Add(1)
		sem <- struct{}{}
		go func(k string) {
			defer wg.Done()
			defer func() { <-sem }()
			ex := newExec(g, idx[k], g.contracts[k])
			err := ex.run()
			mu.Lock()
			defer mu.Unlock()
			if err != nil {
				errs = append(errs, err.Error())
				return
			}
			if miss := ex.ghostSitesBound(); len(miss) > 0 {
				errs = append(errs, fmt.Sprintf("contract-unbound:%s ghost site(s) %v", k, miss))
			}
			for lo := range ex.con.LoopInv {
				found := false
				for _, li := range ex.loops {
					if li.Ordinal == lo {
						found = true
					}
				}
				if !found {
					errs = append(errs, fmt.Sprintf("contract-unbound:%s loop %d", k, lo))
				}
			}
			pathsTotal += ex.paths
			for _, o := range ex.obls {
				// obligations of the property itself, plus the structural
				// obligations its proof rests on whatever they are tagged
				// with: callee preconditions at call sites, loop and Range
				// invariants, frames, site assertions, lock coverage
				structural := o.Kind == "pre" || o.Kind == "inv" || o.Kind == "frame" || o.Kind == "assert" || o.Kind == "lock" || o.Kind == "stable"
				if len(o.Tags) == 0 || hasTag(o.Tags, prop) || structural {
					all = append(all, o)
				}
			}
			for t := range ex.usedTrusted {
				trusted[t] = true
			}
			for t := range ex.usedAssume {
				assumes[t] = true
			}
		}(k)
	}
	wg.Wait()
	sort.Strings(errs)
	if len(errs) > 0 {
		return failClosed("engine: " + strings.Join(errs, "; "))
	}
	if pc.extra != nil {
		ob, as, err := pc.extra(g, idx, cs, prop)
		if err != nil {
			return failClosed("engine: " + err.Error())
		}
		all = append(all, ob...)
		for _, a := range as {
			assumes[a] = true
		}
	}
	for _, a := range cs.assumptions {
		if hasTag(a.Tags, prop) {
			assumes[a.Text] = true
		}
	}
	for _, a := range entryAssumptions(g, idx, keys) {
		assumes[a] = true
	}
	sort.SliceStable(all, func(i, j int) bool { return all[i].Name < all[j].Name })
	timeout := 20000
	if thorough {
		timeout = 120000
	}
	work := filepath.Join(out, "work", prop)
	os.RemoveAll(work)
	// an obligation recorded as a known finding as a whole (no witness to tell
	// one violation of it from another) is reported as such without asking the
	// solvers again: their answer could not change the report
	known0 := loadKnown(out)
	for _, o := range all {
		for _, kf := range known0.Findings {
			if kf.Property == prop && kf.Obligation == o.Name && kf.Witness == "" && !o.Cover {
				o.Result, o.Solver, o.Raw = "unknown", "not solved (recorded known finding)", "recorded in known_findings.json"
			}
		}
	}
	g.solveAll(all, work, timeout, thorough)

	// aggregate by obligation name (an obligation holds iff it holds on every path)
	type agg struct {
		name, kind string
		paths      int
		worst      *Obligation
		secs       float64
		solver     string
		cover      bool
		coverSat   bool
	}
	aggs := map[string]*agg{}
	var order []string
	for _, o := range all {
		a := aggs[o.Name]
		if a == nil {
			a = &agg{name: o.Name, kind: o.Kind, cover: o.Cover}
			aggs[o.Name] = a
			order = append(order, o.Name)
		}
		a.paths++
		a.secs += o.Secs
		if a.solver == "" || o.Solver != "syntactic" {
			a.solver = o.Solver
		}
		if o.Cover {
			if o.Result == "sat" {
				a.coverSat = true
			} else if a.worst == nil {
				a.worst = o
			}
			continue
		}
		if o.Result != "unsat" {
			if a.worst == nil || (a.worst.Result != "sat" && o.Result == "sat") {
				a.worst = o
			}
		}
	}
	known := loadKnown(out)
	var failed []*agg
	nObl, nDis, nCover, nCoverOK := 0, 0, 0, 0
	var list []oblSummary
	solverSecs := 0.0
	for _, n := range order {
		a := aggs[n]
		solverSecs += a.secs
		if a.cover {
			nCover++
			if a.coverSat {
				nCoverOK++
				list = append(list, oblSummary{n, "cover", "sat", a.solver, a.secs, a.paths})
			} else {
				res := "unsat"
				if a.worst != nil {
					res = a.worst.Result
				}
				list = append(list, oblSummary{n, "cover", res, a.solver, a.secs, a.paths})
				failed = append(failed, a)
			}
			continue
		}
		nObl++
		if a.worst == nil {
			nDis++
			list = append(list, oblSummary{n, a.kind, "unsat", a.solver, a.secs, a.paths})
		} else {
			list = append(list, oblSummary{n, a.kind, a.worst.Result, a.worst.Solver, a.secs, a.paths})
			failed = append(failed, a)
		}
	}
	if nObl == 0 {
		return failClosed("zero obligations generated for " + prop + " (vacuous)")
	}
	// report
	violations := 0
	var knownHit []string
	rc := &replayCtx{g: g, out: out, dir: replayDir, prop: prop}
	for _, a := range failed {
		if a.cover {
			p := filepath.Join(replayDir, sanitize(a.name)+".txt")
			os.WriteFile(p, []byte("vacuity guard failed: "+a.name+" is not satisfiable (contradictory precondition or unreachable return)\n"), 0o644)
			fmt.Printf("VIOLATION property=%s replay=%s no-failing-input-found\n", prop, p)
			fmt.Printf("  obligation %s: cover query not satisfiable\n", a.name)
			violations++
			continue
		}
		// known finding?
		var kf *knownFinding
		for i := range known.Findings {
			if known.Findings[i].Property == prop && known.Findings[i].Obligation == a.name {
				kf = &known.Findings[i]
			}
		}
		if kf != nil {
			// (a) no violation other than the listed witness
			other := rc.otherThanWitness(a.name, all, kf, timeout)
			if other == nil {
				fmt.Printf("KNOWN-FINDING: property=%s %s [%s]\n", prop, kf.Text, a.name)
				knownHit = append(knownHit, a.name)
				if kf.Witness == "" {
					// the finding is the whole obligation: nothing about it is
					// proved, so it is not counted among the obligations of the claim
					nObl--
				} else {
					nDis++ // variant (a) discharged: no violation besides the listed witness
				}
				continue
			}
			a.worst = other
		}
		o := a.worst
		path, confirmed, log := "", false, ""
		if o.Result == "sat" && pc.replay != nil {
			path, confirmed, log = pc.replay(rc, o)
		}
		if path == "" {
			path = filepath.Join(replayDir, sanitize(a.name)+".txt")
			var b strings.Builder
			fmt.Fprintf(&b, "obligation: %s\nkind: %s\nfunction: %s\nposition: %s\nresult: %s (solver %s)\nnote: %s\n\nsolver output:\n%s\n",
				o.Name, o.Kind, o.Fn, o.Pos, o.Result, o.Solver, o.Note, o.Raw)
			fmt.Fprintf(&b, "\nquery:\n%s\n", g.queryText(o, false))
			os.WriteFile(path, []byte(b.String()), 0o644)
		}
		violations++
		if confirmed {
			fmt.Printf("VIOLATION property=%s replay=%s\n", prop, path)
		} else {
			fmt.Printf("VIOLATION property=%s replay=%s no-failing-input-found\n", prop, path)
		}
		fmt.Printf("  obligation %s (%s at %s): %s by %s\n", o.Name, o.Kind, o.Pos, o.Result, o.Solver)
		if log != "" {
			fmt.Printf("  replay: %s\n", strings.ReplaceAll(strings.TrimSpace(log), "\n", "\n    "))
		}
	}
	// evidence
	tb, as := []string{}, []string{}
	for t := range trusted {
		tb = append(tb, t)
	}
	for t := range assumes {
		as = append(as, t)
	}
	as = append(as, "A-SLICE: slices and strings are shorter than 2^40 elements; len/cap non-negative; references read from the heap point to allocated objects",
		"A-SSA: go/ssa (x/tools v0.29.0) lowers the source faithfully and govc encodes each SSA instruction faithfully (bit-vector integers, Go slice/map/interface semantics)",
		"A-SMT: unsat answers of z3 5.1.0 / z3 4.8.12 / cvc5 1.0.3 are sound",
		"A-INDUCTION: lifting per-call contracts to histories (DESIGN.md 4.1) is argued on paper")
	sort.Strings(tb)
	sort.Strings(as)
	tb = append(tb, "golang.org/x/tools/go/ssa v0.29.0 lowering (A-SSA)", "govc SSA->SMT encoding (A-SSA)", "z3 5.1.0 / z3 4.8.12 / cvc5 1.0.3 unsat answers (A-SMT)")
	var samples []interface{}
	for i, o := range all {
		if o.Cover || o.Solver == "syntactic" {
			continue
		}
		if len(samples) >= 3 {
			break
		}
		_ = i
		goal := o.Goal.S
		if len(goal) > 400 {
			goal = goal[:400] + "..."
		}
		samples = append(samples, map[string]interface{}{"obligation": o.Name, "position": o.Pos, "path_assumptions": len(o.Asserts), "goal": goal, "result": o.Result, "solver": o.Solver})
	}
	cov := map[string]interface{}{
		"obligations": nObl, "discharged": nDis,
		"checker_cmd":              "/verif/check " + prop + map[bool]string{true: " --thorough", false: ""}[thorough],
		"trusted_base":             tb,
		"functions_under_contract": keys,
		"paths_explored":           pathsTotal,
		"path_queries":             len(all),
		"covers":                   nCover, "covers_sat": nCoverOK,
		"solver_seconds":             solverSecs,
		"obligation_list":            list,
		"known_findings_reconfirmed": knownHit,
		"samples":                    samples,
		"undecided_part":             pc.undecided,
		"evaluations":                len(all), "distinct_nontrivial": nObl,
		"rule": "one obligation per named proof goal (panic site, pre/post clause, invariant, frame); each is checked on every symbolic path reaching it",
	}
	writeEvidence(out, evidence{PropertyID: prop, Tier: tier, Seed: seed, Level: "proof", Coverage: cov, Assumptions: as,
		WallS: time.Since(t0).Seconds(), Violations: violations})
	fmt.Printf("%s: %d functions, %d paths, %d obligations (%d discharged), %d covers (%d sat), %d known findings, %d violations, %.1fs\n",
		prop, len(keys), pathsTotal, nObl, nDis, nCover, nCoverOK, len(knownHit), violations, time.Since(t0).Seconds())
	if violations > 0 {
		return 1
	}
	os.RemoveAll(work)
	return 0
}

type replayCtx struct {
	g    *G
	out  string
	dir  string
	prop string
}

// otherThanWitness re-checks every path query of an obligation with the
// finding's witness excluded; returns a failing query if a different
// violation exists.
func (rc *replayCtx) otherThanWitness(name string, all []*Obligation, kf *knownFinding, timeout int) *Obligation {
	if kf.Witness == "" {
		return nil
	}
	var qs []*Obligation
	for _, o := range all {
		if o.Name != name || o.Cover || o.Result == "unsat" {
			continue
		}
		c := *o
		c.Asserts = append(append([]Term(nil), o.Asserts...), Term{"(not " + kf.Witness + ")", SBool})
		c.Result = ""
		qs = append(qs, &c)
	}
	rc.g.solveAll(qs, filepath.Join(rc.out, "work", rc.prop, "kf"), timeout, false)
	for _, q := range qs {
		if q.Result != "unsat" {
			return q
		}
	}
	return nil
}
