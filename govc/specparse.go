package main

// Specification expression language: tokenizer and Pratt parser.
// Go-like expressions plus ==>, <==>, forall/exists, `in`, old().

import (
	"fmt"
	"strings"
)

type E struct {
	Op    string // id num str char call sel index slice un bin forall exists tassert typ
	Name  string // identifier / operator / field name
	Args  []*E
	QVars []QVar
	Type  *TypeE
	Src   string
}

type QVar struct {
	Name string
	Type *TypeE
}

type TypeE struct {
	Kind string // name ptr slice map
	Pkg  string
	Name string
	Elem *TypeE
	Key  *TypeE
}

func (t *TypeE) String() string {
	switch t.Kind {
	case "name":
		if t.Pkg != "" {
			return t.Pkg + "." + t.Name
		}
		return t.Name
	case "ptr":
		return "*" + t.Elem.String()
	case "slice":
		return "[]" + t.Elem.String()
	case "map":
		return "map[" + t.Key.String() + "]" + t.Elem.String()
	}
	return "?"
}

type tok struct {
	k string // id num str char op eof
	v string
}

func tokenize(src string) ([]tok, error) {
	var out []tok
	ops := []string{"<==>", "==>", "&&", "||", "==", "!=", "<=", ">=", "<<", ">>", "&^", "::", ":=",
		"+", "-", "*", "/", "%", "&", "|", "^", "<", ">", "!", "(", ")", "[", "]", "{", "}", ",", ".", ":", "?"}
	i := 0
	for i < len(src) {
		c := src[i]
		switch {
		case c == ' ' || c == '\t' || c == '\n' || c == '\r':
			i++
		case c == '_' || c >= 'a' && c <= 'z' || c >= 'A' && c <= 'Z':
			j := i
			for j < len(src) && (src[j] == '_' || src[j] >= 'a' && src[j] <= 'z' || src[j] >= 'A' && src[j] <= 'Z' || src[j] >= '0' && src[j] <= '9') {
				j++
			}
			out = append(out, tok{"id", src[i:j]})
			i = j
		case c >= '0' && c <= '9':
			j := i
			for j < len(src) && (src[j] >= '0' && src[j] <= '9' || src[j] >= 'a' && src[j] <= 'f' || src[j] >= 'A' && src[j] <= 'F' || src[j] == 'x' || src[j] == 'X' || src[j] == '_') {
				j++
			}
			out = append(out, tok{"num", strings.ReplaceAll(src[i:j], "_", "")})
			i = j
		case c == '"':
			j := i + 1
			var b strings.Builder
			for j < len(src) && src[j] != '"' {
				if src[j] == '\\' && j+1 < len(src) {
					j++
					switch src[j] {
					case 'n':
						b.WriteByte('\n')
					case 't':
						b.WriteByte('\t')
					case '0':
						b.WriteByte(0)
					default:
						b.WriteByte(src[j])
					}
				} else {
					b.WriteByte(src[j])
				}
				j++
			}
			if j >= len(src) {
				return nil, fmt.Errorf("unterminated string")
			}
			out = append(out, tok{"str", b.String()})
			i = j + 1
		case c == '\'':
			if i+2 < len(src) && src[i+2] == '\'' {
				out = append(out, tok{"char", string(src[i+1])})
				i += 3
			} else {
				return nil, fmt.Errorf("bad char literal")
			}
		default:
			matched := false
			for _, o := range ops {
				if strings.HasPrefix(src[i:], o) {
					out = append(out, tok{"op", o})
					i += len(o)
					matched = true
					break
				}
			}
			if !matched {
				return nil, fmt.Errorf("unexpected character %q in %q", c, src)
			}
		}
	}
	out = append(out, tok{"eof", ""})
	return out, nil
}

type sparser struct {
	toks []tok
	p    int
	src  string
}

func parseSpecExpr(src string) (e *E, err error) {
	toks, err := tokenize(src)
	if err != nil {
		return nil, err
	}
	sp := &sparser{toks: toks, src: src}
	defer func() {
		if r := recover(); r != nil {
			if s, ok := r.(string); ok {
				err = fmt.Errorf("spec parse error: %s in %q", s, src)
				return
			}
			panic(r)
		}
	}()
	e = sp.expr(0)
	if sp.peek().k != "eof" {
		panic("trailing tokens at " + sp.peek().v)
	}
	e.Src = src
	return e, nil
}

func (sp *sparser) peek() tok  { return sp.toks[sp.p] }
func (sp *sparser) next() tok  { t := sp.toks[sp.p]; sp.p++; return t }
func (sp *sparser) isOp(v string) bool { return sp.peek().k == "op" && sp.peek().v == v }
func (sp *sparser) expect(v string) {
	if !sp.isOp(v) {
		panic(fmt.Sprintf("expected %q, got %q", v, sp.peek().v))
	}
	sp.p++
}

var binPrec = map[string]int{
	"<==>": 1, "==>": 2, "||": 3, "&&": 4,
	"==": 5, "!=": 5, "<": 5, "<=": 5, ">": 5, ">=": 5, "in": 5,
	"+": 6, "-": 6, "|": 6, "^": 6,
	"*": 7, "/": 7, "%": 7, "<<": 7, ">>": 7, "&": 7, "&^": 7,
}

func (sp *sparser) expr(minPrec int) *E {
	lhs := sp.unary()
	for {
		t := sp.peek()
		var op string
		if t.k == "op" {
			op = t.v
		} else if t.k == "id" && t.v == "in" {
			op = "in"
		} else {
			return lhs
		}
		prec, ok := binPrec[op]
		if !ok || prec < minPrec {
			return lhs
		}
		sp.next()
		var rhs *E
		if op == "==>" {
			rhs = sp.expr(prec) // right assoc
		} else {
			rhs = sp.expr(prec + 1)
		}
		lhs = &E{Op: "bin", Name: op, Args: []*E{lhs, rhs}}
	}
}

func (sp *sparser) unary() *E {
	t := sp.peek()
	if t.k == "op" && (t.v == "!" || t.v == "-" || t.v == "^") {
		sp.next()
		x := sp.unary()
		return &E{Op: "un", Name: t.v, Args: []*E{x}}
	}
	if t.k == "id" && (t.v == "forall" || t.v == "exists") {
		sp.next()
		var qs []QVar
		for {
			n := sp.next()
			if n.k != "id" {
				panic("quantifier variable expected")
			}
			ty := sp.typ()
			qs = append(qs, QVar{n.v, ty})
			if sp.isOp(",") {
				sp.next()
				continue
			}
			break
		}
		sp.expect("::")
		body := sp.expr(0)
		return &E{Op: t.v, QVars: qs, Args: []*E{body}}
	}
	return sp.postfix(sp.primary())
}

func (sp *sparser) primary() *E {
	t := sp.next()
	switch t.k {
	case "num":
		return &E{Op: "num", Name: t.v}
	case "str":
		return &E{Op: "str", Name: t.v}
	case "char":
		return &E{Op: "char", Name: t.v}
	case "id":
		return &E{Op: "id", Name: t.v}
	case "op":
		switch t.v {
		case "(":
			e := sp.expr(0)
			sp.expect(")")
			return e
		case "[":
			// slice type conversion: []byte(x)
			sp.p--
			ty := sp.typ()
			sp.expect("(")
			x := sp.expr(0)
			sp.expect(")")
			return &E{Op: "conv", Type: ty, Args: []*E{x}}
		case "*":
			// type literal in argument position: *T
			sp.p--
			ty := sp.typ()
			return &E{Op: "typ", Type: ty}
		}
	}
	panic(fmt.Sprintf("unexpected token %q", t.v))
}

func (sp *sparser) postfix(e *E) *E {
	for {
		switch {
		case sp.isOp("."):
			sp.next()
			if sp.isOp("(") {
				sp.next()
				ty := sp.typ()
				sp.expect(")")
				e = &E{Op: "tassert", Type: ty, Args: []*E{e}}
				continue
			}
			n := sp.next()
			if n.k != "id" {
				panic("field name expected")
			}
			e = &E{Op: "sel", Name: n.v, Args: []*E{e}}
		case sp.isOp("("):
			sp.next()
			var args []*E
			for !sp.isOp(")") {
				args = append(args, sp.expr(0))
				if sp.isOp(",") {
					sp.next()
				}
			}
			sp.expect(")")
			e = &E{Op: "call", Args: append([]*E{e}, args...)}
		case sp.isOp("["):
			sp.next()
			var lo, hi *E
			if !sp.isOp(":") {
				lo = sp.expr(0)
			}
			if sp.isOp(":") {
				sp.next()
				if !sp.isOp("]") {
					hi = sp.expr(0)
				}
				sp.expect("]")
				e = &E{Op: "slice", Args: []*E{e, lo, hi}}
			} else {
				sp.expect("]")
				e = &E{Op: "index", Args: []*E{e, lo}}
			}
		default:
			return e
		}
	}
}

func (sp *sparser) typ() *TypeE {
	switch {
	case sp.isOp("*"):
		sp.next()
		return &TypeE{Kind: "ptr", Elem: sp.typ()}
	case sp.isOp("["):
		sp.next()
		sp.expect("]")
		return &TypeE{Kind: "slice", Elem: sp.typ()}
	}
	t := sp.next()
	if t.k != "id" {
		panic("type expected, got " + t.v)
	}
	if t.v == "map" {
		sp.expect("[")
		k := sp.typ()
		sp.expect("]")
		return &TypeE{Kind: "map", Key: k, Elem: sp.typ()}
	}
	if sp.isOp(".") && sp.toks[sp.p+1].k == "id" {
		// pkg.Type
		save := sp.p
		sp.next()
		n := sp.next()
		// heuristic: package-qualified type if the name starts upper-case
		if n.v[0] >= 'A' && n.v[0] <= 'Z' {
			return &TypeE{Kind: "name", Pkg: t.v, Name: n.v}
		}
		sp.p = save
	}
	return &TypeE{Kind: "name", Name: t.v}
}

