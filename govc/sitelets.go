package main

// Site-level `let` bindings (at <site> after let x = ret) exist only on paths
// that reach the site.

func (ex *Exec) siteLetNames() map[string]bool {
	m := map[string]bool{}
	if ex.con == nil {
		return m
	}
	for _, g := range ex.con.Ghost {
		if g.Kind == "let" {
			m[g.Name] = true
		}
	}
	return m
}

func mentionsAny(e *E, names map[string]bool) bool {
	if e == nil {
		return false
	}
	if e.Op == "id" && names[e.Name] {
		return true
	}
	for _, a := range e.Args {
		if mentionsAny(a, names) {
			return true
		}
	}
	return false
}

func (ex *Exec) mentionsUnboundSiteLet(s *State, e *E) bool {
	names := ex.siteLetNames()
	if len(names) == 0 {
		return false
	}
	var walk func(e *E) bool
	walk = func(e *E) bool {
		if e == nil {
			return false
		}
		if e.Op == "id" && names[e.Name] {
			if _, ok := s.Lets[e.Name]; !ok {
				return true
			}
		}
		if e.Op == "call" && len(e.Args) == 2 && e.Args[0].Op == "id" && e.Args[0].Name == "bound" {
			return false // bound(x) asks whether the path reached x's site: always evaluable
		}
		for _, a := range e.Args {
			if walk(a) {
				return true
			}
		}
		return false
	}
	return walk(e)
}

// sexprEnd returns the index just past the s-expression (atom, |quoted| symbol
// or parenthesised term) starting at position i of s, or -1.
func sexprEnd(s string, i int) int {
	if i >= len(s) {
		return -1
	}
	switch s[i] {
	case '(':
		depth := 0
		inBar := false
		for j := i; j < len(s); j++ {
			c := s[j]
			if inBar {
				if c == '|' {
					inBar = false
				}
				continue
			}
			switch c {
			case '|':
				inBar = true
			case '(':
				depth++
			case ')':
				depth--
				if depth == 0 {
					return j + 1
				}
			}
		}
		return -1
	case '|':
		for j := i + 1; j < len(s); j++ {
			if s[j] == '|' {
				return j + 1
			}
		}
		return -1
	}
	for j := i; j < len(s); j++ {
		if s[j] == ' ' || s[j] == ')' || s[j] == '\n' {
			return j
		}
	}
	return len(s)
}

// mentionsOld: does the clause use old(...)?
func mentionsOld(e *E) bool {
	if e == nil {
		return false
	}
	if e.Op == "call" && len(e.Args) >= 1 && e.Args[0].Op == "id" && e.Args[0].Name == "old" {
		return true
	}
	for _, a := range e.Args {
		if mentionsOld(a) {
			return true
		}
	}
	return false
}
