package main

// Call-site sweeps (DESIGN.md 6.C C14): obligations that are decided on the
// SSA of every function of a package rather than by the solver. They close
// the gap between "every mqttSend call in a function under contract sends
// what the contract says" and "nothing reaches the broker in any other way".

import (
	"fmt"
	"os"
	"go/types"
	"sort"
	"strings"

	"golang.org/x/tools/go/ssa"
)

const pahoPkts = "github.com/eclipse/paho.mqtt.golang/packets"

func namedIn(t types.Type, pkgPath string) (string, bool) {
	if p, ok := t.(*types.Pointer); ok {
		t = p.Elem()
	}
	n, ok := t.(*types.Named)
	if !ok || n.Obj().Pkg() == nil || n.Obj().Pkg().Path() != pkgPath {
		return "", false
	}
	return n.Obj().Name(), true
}

// sweepSendScope (C24): the precondition validMqtt of mqttSend is only
// generated as an obligation at call sites inside functions that are checked
// for the property. This sweep makes the selection itself an obligation:
//
//	sweep.send_in_scope.N   every call of mqttSend in package gateway lies in a
//	                        function that is under (non-trusted) contract and
//	                        carries the property's tag, or in an `inline`
//	                        function all of whose callers (transitively) do.
//
// It also includes the broker-write sweep (nothing reaches the broker except
// through mqttSend).
func sweepSendScope(g *G, idx funcIndex, cs *contractSet, prop string) ([]*Obligation, []string, error) {
	obls, as, err := sweepBrokerWrites(g, idx, cs, prop)
	if err != nil {
		return nil, nil, err
	}
	var keys []string
	for k := range idx {
		if strings.HasPrefix(k, "gateway.") {
			keys = append(keys, k)
		}
	}
	sort.Strings(keys)
	callers := map[string][]*ssa.Function{} // static callee key -> calling functions
	for _, k := range keys {
		fn := idx[k]
		for _, b := range fn.Blocks {
			for _, in := range b.Instrs {
				if ci, ok := in.(ssa.CallInstruction); ok {
					if f := ci.Common().StaticCallee(); f != nil {
						callers[funcKey(f)] = append(callers[funcKey(f)], fn)
					}
				}
			}
		}
	}
	var inScope func(fn *ssa.Function, depth int) bool
	inScope = func(fn *ssa.Function, depth int) bool {
		if depth > 8 {
			return false
		}
		k := funcKey(fn)
		if c := g.contracts[k]; c != nil && !c.Trusted && !c.Inline && !g.inlineSet[k] {
			return hasTag(c.AllTags(), prop)
		}
		if g.inlineSet[k] || (g.contracts[k] != nil && g.contracts[k].Inline) || (g.contracts[k] == nil && fn.Parent() == nil && loopFreeSmall(fn)) {
			// (a loop-free helper without contract is verified inside its callers, like an inline function)
			cl := callers[k]
			if len(cl) == 0 {
				return false
			}
			for _, c := range cl {
				if strings.HasSuffix(g.fset.Position(c.Pos()).Filename, "_test.go") {
					continue
				}
				if !inScope(c, depth+1) {
					return false
				}
			}
			return true
		}
		return false
	}
	for _, k := range keys {
		fn := idx[k]
		if fn.Blocks == nil || strings.HasSuffix(g.fset.Position(fn.Pos()).Filename, "_test.go") {
			continue
		}
		n := 0
		for _, b := range fn.Blocks {
			for _, in := range b.Instrs {
				ci, ok := in.(ssa.CallInstruction)
				if !ok {
					continue
				}
				if f := ci.Common().StaticCallee(); f != nil && funcKey(f) == "gateway.(*handler1).mqttSend" {
					ok := inScope(fn, 0)
					pp := g.fset.Position(in.Pos())
					o := &Obligation{Name: fmt.Sprintf("%s#sweep.send_in_scope.%d", funcKey(fn), n), Kind: "sweep", Fn: funcKey(fn), Tags: []string{prop},
						Pos:  fmt.Sprintf("%s:%d", strings.TrimPrefix(pp.Filename, repoRoot+"/"), pp.Line),
						Goal: TTrue, Solver: "syntactic", Result: "unsat",
						Note: "mqttSend called from a function that is not checked for " + prop + " (no contract carrying the tag): the validity of the packet handed over is not an obligation anywhere"}
					if !ok {
						o.Goal, o.Result, o.Raw = TFalse, "sat", o.Note
					}
					obls = append(obls, o)
					n++
				}
			}
		}
	}
	return obls, as, nil
}

// sweepBrokerWrites generates, for every function of package gateway,
//
//	sweep.broker_write.N      every call of a Write method of a paho packet, of
//	                          util.ConnWithContext, net.Conn or io.Writer lies in
//	                          mqttSend or snSend (the two functions whose contracts
//	                          append to the ghost output traces);
//	sweep.mqtt_send_site.N    every call of mqttSend lies in a function under
//	                          (non-trusted) contract, or hands over a packet whose
//	                          static type is a paho packet type other than DISCONNECT.
func sweepBrokerWrites(g *G, idx funcIndex, cs *contractSet, prop string) ([]*Obligation, []string, error) {
	var keys []string
	for k := range idx {
		if strings.HasPrefix(k, "gateway.") {
			keys = append(keys, k)
		}
	}
	sort.Strings(keys)
	if len(keys) == 0 {
		return nil, nil, fmt.Errorf("sweep: no function of package gateway loaded")
	}
	// A call of mqttSend is decided by the contract of the function it is in
	// only if that contract speaks about this property (a function that came
	// under contract for another property - run, for C13 - says nothing
	// about what it may send to the broker).
	underContract := func(fn *ssa.Function) bool {
		for f := fn; f != nil; f = f.Parent() {
			if c := g.contracts[funcKey(f)]; c != nil && !c.Trusted && hasTag(c.AllTags(), prop) {
				return true
			}
			if g.inlineSet[funcKey(f)] {
				// verified inside each of its callers (which are under contract or flagged themselves)
				return true
			}
		}
		return false
	}
	var obls []*Obligation
	mk := func(fn *ssa.Function, name string, in ssa.Instruction, ok bool, note string) {
		pp := g.fset.Position(in.Pos())
		o := &Obligation{Name: funcKey(fn) + "#" + name, Kind: "sweep", Fn: funcKey(fn), Tags: []string{prop},
			Pos:  fmt.Sprintf("%s:%d", strings.TrimPrefix(pp.Filename, repoRoot+"/"), pp.Line),
			Goal: TTrue, Solver: "syntactic", Result: "unsat", Note: note}
		if !ok {
			o.Goal, o.Result, o.Raw = TFalse, "sat", note
		}
		obls = append(obls, o)
	}
	sawSend := false
	for _, k := range keys {
		fn := idx[k]
		if fn.Blocks == nil || strings.HasSuffix(g.fset.Position(fn.Pos()).Filename, "_test.go") {
			continue
		}
		nw, ns := 0, 0
		for _, b := range fn.Blocks {
			for _, in := range b.Instrs {
				ci, ok := in.(ssa.CallInstruction)
				if !ok {
					continue
				}
				c := ci.Common()
				// (1) writes
				isWrite := false
				if c.IsInvoke() && c.Method.Name() == "Write" {
					if _, ok := namedIn(c.Value.Type(), pahoPkts); ok {
						isWrite = true
					}
					s := c.Value.Type().String()
					if s == "net.Conn" || s == "io.Writer" {
						isWrite = true
					}
				} else if f := c.StaticCallee(); f != nil && f.Name() == "Write" && f.Signature.Recv() != nil {
					rt := f.Signature.Recv().Type()
					if _, ok := namedIn(rt, pahoPkts); ok {
						isWrite = true
					}
					if n, ok := namedIn(rt, repoPrefix+"/util"); ok && n == "ConnWithContext" {
						isWrite = true
					}
				}
				if isWrite {
					okFn := k == "gateway.(*handler1).mqttSend" || k == "gateway.(*handler1).snSend"
					mk(fn, fmt.Sprintf("sweep.broker_write.%d", nw), in, okFn,
						"a packet or connection Write outside mqttSend/snSend bypasses the output traces the C14 contracts speak about")
					nw++
				}
				// (2) mqttSend call sites
				if f := c.StaticCallee(); f != nil && funcKey(f) == "gateway.(*handler1).mqttSend" {
					sawSend = true
					ok := underContract(fn)
					note := "mqttSend called from a function whose contract has no clause of this property, with a packet that is not statically a non-DISCONNECT paho packet"
					if !ok && len(c.Args) == 2 {
						if mi, isMI := c.Args[1].(*ssa.MakeInterface); isMI {
							if n, isP := namedIn(mi.X.Type(), pahoPkts); isP && n != "DisconnectPacket" {
								ok = true
							}
						}
					}
					mk(fn, fmt.Sprintf("sweep.mqtt_send_site.%d", ns), in, ok, note)
					ns++
				}
			}
		}
	}
	if !sawSend {
		return nil, nil, fmt.Errorf("sweep: no call of (*handler1).mqttSend found in package gateway (renamed?)")
	}
	return obls, []string{"A-SWEEP: packets reach the broker only through method calls named Write on paho packets, util.ConnWithContext, net.Conn or io.Writer values (no reflection, no unsafe, no raw file-descriptor writes) in package gateway"}, nil
}

// sweepAuthOnlyInConnect (C31): the contract of Client.Connect says when an
// AUTH is sent after a CONNECT. This sweep adds that nothing else in the client
// library builds one:
//
//	sweep.auth_only_in_connect.N   every allocation of a packets1.Auth or
//	                               packets1.Connect, and every call of a
//	                               packets1 constructor returning one, in
//	                               package client lies in (*Client).Connect.
func sweepAuthOnlyInConnect(g *G, idx funcIndex, cs *contractSet, prop string) ([]*Obligation, []string, error) {
	var keys []string
	for k := range idx {
		if strings.HasPrefix(k, "client.") {
			keys = append(keys, k)
		}
	}
	sort.Strings(keys)
	if len(keys) == 0 {
		return nil, nil, fmt.Errorf("sweep: no function of package client loaded")
	}
	isAC := func(t types.Type) bool {
		n, ok := namedIn(t, repoPrefix+"/packets1")
		return ok && (n == "Auth" || n == "Connect")
	}
	var obls []*Obligation
	seen := false
	for _, k := range keys {
		fn := idx[k]
		if fn.Blocks == nil || strings.HasSuffix(g.fset.Position(fn.Pos()).Filename, "_test.go") {
			continue
		}
		n := 0
		for _, b := range fn.Blocks {
			for _, in := range b.Instrs {
				hit := false
				switch x := in.(type) {
				case *ssa.Alloc:
					hit = isAC(x.Type())
				case ssa.CallInstruction:
					if f := x.Common().StaticCallee(); f != nil && f.Signature.Results().Len() == 1 && isAC(f.Signature.Results().At(0).Type()) {
						hit = true
					}
				}
				if !hit {
					continue
				}
				seen = true
				ok := k == "client.(*Client).Connect"
				pp := g.fset.Position(in.Pos())
				o := &Obligation{Name: fmt.Sprintf("%s#sweep.auth_only_in_connect.%d", k, n), Kind: "sweep", Fn: k, Tags: []string{prop},
					Pos:  fmt.Sprintf("%s:%d", strings.TrimPrefix(pp.Filename, repoRoot+"/"), pp.Line),
					Goal: TTrue, Solver: "syntactic", Result: "unsat",
					Note: "a CONNECT or AUTH packet is built outside Client.Connect, whose contract is the only place that decides when an AUTH follows a CONNECT"}
				if !ok {
					o.Goal, o.Result, o.Raw = TFalse, "sat", o.Note
				}
				obls = append(obls, o)
				n++
			}
		}
	}
	if !seen {
		return nil, nil, fmt.Errorf("sweep: package client builds no CONNECT/AUTH packet (renamed?)")
	}
	return obls, []string{"A-SWEEP-CLIENT: CONNECT and AUTH packets are built only by packets1 constructors or composite literals (no reflection) in package client"}, nil
}

// sweepIsolation (C15): sessions share their configuration (*handlerConfig,
// *GatewayConfig), the predefined-topic map, package-level variables and the
// accept loop. Everything else a session touches hangs off its own handler
// (newHandler's contract: fresh state). Decided on the SSA of package gateway:
//
//	sweep.shared_config_write.N   no store through a *handlerConfig / *GatewayConfig
//	                              except into the struct literal a function has
//	                              just allocated itself;
//	sweep.shared_topics_write.N   no update of a topics.PredefinedTopics map (or of
//	                              its inner maps) and no call of its Add / Merge;
//	sweep.global_write.N          no store to a package-level variable outside init;
//	sweep.per_connection_capture.N  the goroutine started per accepted connection
//	                              captures only variables allocated inside the
//	                              accept loop (its own connection, handler, logger).
func sweepIsolation(g *G, idx funcIndex, cs *contractSet, prop string) ([]*Obligation, []string, error) {
	var keys []string
	for k := range idx {
		if strings.HasPrefix(k, "gateway.") {
			keys = append(keys, k)
		}
	}
	sort.Strings(keys)
	if len(keys) == 0 {
		return nil, nil, fmt.Errorf("sweep: no function of package gateway loaded")
	}
	var obls []*Obligation
	mk := func(fn *ssa.Function, name string, in ssa.Instruction, ok bool, note string) {
		pp := g.fset.Position(in.Pos())
		o := &Obligation{Name: funcKey(fn) + "#" + name, Kind: "sweep", Fn: funcKey(fn), Tags: []string{prop},
			Pos:  fmt.Sprintf("%s:%d", strings.TrimPrefix(pp.Filename, repoRoot+"/"), pp.Line),
			Goal: TTrue, Solver: "syntactic", Result: "unsat", Note: note}
		if !ok {
			o.Goal, o.Result, o.Raw = TFalse, "sat", note
		}
		obls = append(obls, o)
	}
	isCfg := func(t types.Type) bool {
		n, ok := namedIn(t, repoPrefix+"/gateway")
		return ok && (n == "handlerConfig" || n == "GatewayConfig")
	}
	isTopics := func(t types.Type) bool {
		if n, ok := namedIn(t, repoPrefix+"/topics"); ok && n == "PredefinedTopics" {
			return true
		}
		if m, ok := t.Underlying().(*types.Map); ok {
			if b, ok := m.Key().Underlying().(*types.Basic); ok && b.Kind() == types.Uint16 {
				if e, ok := m.Elem().Underlying().(*types.Basic); ok && e.Kind() == types.String {
					return true
				}
			}
		}
		return false
	}
	sawAccept := false
	counted := 0
	for _, k := range keys {
		fn := idx[k]
		if fn.Blocks == nil || strings.HasSuffix(g.fset.Position(fn.Pos()).Filename, "_test.go") {
			continue
		}
		nc, nt, ng, np := 0, 0, 0, 0
		inLoop := func(b *ssa.BasicBlock) bool {
			// b lies on a cycle of the control-flow graph
			seen := map[*ssa.BasicBlock]bool{}
			var stack []*ssa.BasicBlock
			stack = append(stack, b.Succs...)
			for len(stack) > 0 {
				x := stack[len(stack)-1]
				stack = stack[:len(stack)-1]
				if x == b {
					return true
				}
				if seen[x] {
					continue
				}
				seen[x] = true
				stack = append(stack, x.Succs...)
			}
			return false
		}
		for _, b := range fn.Blocks {
			for _, in := range b.Instrs {
				switch x := in.(type) {
				case *ssa.Store:
					counted++
					if fa, ok := x.Addr.(*ssa.FieldAddr); ok && isCfg(fa.X.Type()) {
						_, own := fa.X.(*ssa.Alloc)
						mk(fn, fmt.Sprintf("sweep.shared_config_write.%d", nc), in, own,
							"a field of the configuration shared by all sessions is written: one session's action would change what every other session does")
						nc++
					}
					if gl, ok := x.Addr.(*ssa.Global); ok && fn.Name() != "init" {
						mk(fn, fmt.Sprintf("sweep.global_write.%d", ng), in, false, "package-level variable "+gl.Name()+" is written outside init: state shared by all sessions")
						ng++
					}
				case *ssa.MapUpdate:
					if isTopics(x.Map.Type()) {
						mk(fn, fmt.Sprintf("sweep.shared_topics_write.%d", nt), in, false, "the predefined-topic map shared by all sessions is updated")
						nt++
					}
				case ssa.CallInstruction:
					if f := x.Common().StaticCallee(); f != nil && f.Signature.Recv() != nil && isTopics(f.Signature.Recv().Type()) && (f.Name() == "Add" || f.Name() == "Merge") {
						mk(fn, fmt.Sprintf("sweep.shared_topics_write.%d", nt), in, false, "the predefined-topic map shared by all sessions is updated ("+f.Name()+")")
						nt++
					}
					if goi, ok := in.(*ssa.Go); ok && strings.HasSuffix(k, ".ListenAndServe") {
						if mc, ok := goi.Call.Value.(*ssa.MakeClosure); ok && inLoop(b) {
							sawAccept = true
							for _, bnd := range mc.Bindings {
								if a, ok := bnd.(*ssa.Alloc); ok {
									// allocated per iteration, or shared but never assigned inside the loop (e.g. ctx)
									okCap := inLoop(a.Block())
									if !okCap {
										okCap = true
										for _, ref := range *a.Referrers() {
											if st, isSt := ref.(*ssa.Store); isSt && st.Addr == ssa.Value(a) && inLoop(st.Block()) {
												okCap = false
											}
										}
									}
									mk(fn, fmt.Sprintf("sweep.per_connection_capture.%d", np), in, okCap,
										"the per-connection goroutine captures variable "+a.Comment+" that is shared by all iterations of the accept loop: a session would use (or close) another peer's connection or handler")
									np++
								}
							}
						}
					}
				}
			}
		}
	}
	if !sawAccept {
		return nil, nil, fmt.Errorf("sweep: no per-connection goroutine found in the accept loop of ListenAndServe (restructured?)")
	}
	if len(obls) == 0 || counted == 0 {
		return nil, nil, fmt.Errorf("sweep: nothing to check in package gateway")
	}
	return obls, []string{"A-SWEEP-ISOLATION: shared objects are written only through SSA stores, map updates and the PredefinedTopics methods (no reflection, unsafe, or writes through slices that alias configuration data: append into spare capacity of a shared slice is not seen, A-APPEND)"}, nil
}

// sweepDatagramSenders (C23): the well-formedness precondition of snSend /
// Client.send is an obligation only at call sites inside functions checked for
// the property; as for C24 the selection itself is made an obligation
// (sweep.sender_in_scope.N), for both packages.
func sweepDatagramSenders(g *G, idx funcIndex, cs *contractSet, prop string) ([]*Obligation, []string, error) {
	var obls []*Obligation
	for _, tgt := range []struct{ pkg, key string }{{"gateway.", "gateway.(*handler1).snSend"}, {"client.", "client.(*Client).send"}} {
		var keys []string
		for k := range idx {
			if strings.HasPrefix(k, tgt.pkg) {
				keys = append(keys, k)
			}
		}
		sort.Strings(keys)
		callers := map[string][]*ssa.Function{}
		for _, k := range keys {
			for _, b := range idx[k].Blocks {
				for _, in := range b.Instrs {
					if ci, ok := in.(ssa.CallInstruction); ok {
						if f := ci.Common().StaticCallee(); f != nil {
							callers[funcKey(f)] = append(callers[funcKey(f)], idx[k])
						}
					}
				}
			}
		}
		var inScope func(fn *ssa.Function, depth int) bool
		inScope = func(fn *ssa.Function, depth int) bool {
			if depth > 8 {
				return false
			}
			k := funcKey(fn)
			if c := g.contracts[k]; c != nil && !c.Trusted && !c.Inline && !g.inlineSet[k] {
				return hasTag(c.AllTags(), prop)
			}
			if g.inlineSet[k] || (g.contracts[k] != nil && g.contracts[k].Inline) || (g.contracts[k] == nil && fn.Parent() == nil && loopFreeSmall(fn)) {
				cl := callers[k]
				if len(cl) == 0 {
					return false
				}
				for _, c := range cl {
					if strings.HasSuffix(g.fset.Position(c.Pos()).Filename, "_test.go") {
						continue
					}
					if !inScope(c, depth+1) {
						return false
					}
				}
				return true
			}
			return false
		}
		saw := false
		for _, k := range keys {
			fn := idx[k]
			if fn.Blocks == nil || strings.HasSuffix(g.fset.Position(fn.Pos()).Filename, "_test.go") {
				continue
			}
			n := 0
			for _, b := range fn.Blocks {
				for _, in := range b.Instrs {
					ci, ok := in.(ssa.CallInstruction)
					if !ok {
						continue
					}
					if f := ci.Common().StaticCallee(); f != nil && funcKey(f) == tgt.key {
						saw = true
						ok := inScope(fn, 0)
						pp := g.fset.Position(in.Pos())
						o := &Obligation{Name: fmt.Sprintf("%s#sweep.sender_in_scope.%d", funcKey(fn), n), Kind: "sweep", Fn: funcKey(fn), Tags: []string{prop},
							Pos:  fmt.Sprintf("%s:%d", strings.TrimPrefix(pp.Filename, repoRoot+"/"), pp.Line),
							Goal: TTrue, Solver: "syntactic", Result: "unsat",
							Note: tgt.key + " called from a function that is not checked for " + prop + ": the well-formedness of the packet handed over is not an obligation anywhere"}
						if !ok {
							o.Goal, o.Result, o.Raw = TFalse, "sat", o.Note
						}
						obls = append(obls, o)
						n++
					}
				}
			}
		}
		if !saw {
			return nil, nil, fmt.Errorf("sweep: no call of %s found (renamed?)", tgt.key)
		}
	}
	return obls, []string{"A-SWEEP: datagrams reach a connection only through snSend (gateway) and Client.send (client library); checked for the gateway's broker side by C14/C24, for connection writes of package client by inspection of its single Write call in send"}, nil
}

// entryAssumptions lists, for the functions verified in a run, those whose
// precondition is checked nowhere: no function under contract calls them,
// starts them as a goroutine, arms them as a timer callback or hands them to
// another function. Such a function is an entry point of the verified code
// (called by the application, the runtime or tests) and its `requires`
// clauses are assumptions; they go into the evidence by name.
func entryAssumptions(g *G, idx funcIndex, keys []string) []string {
	verified := map[*ssa.Function]bool{}
	var fns []*ssa.Function
	for _, fn := range idx {
		if fn.Blocks == nil || strings.HasSuffix(g.fset.Position(fn.Pos()).Filename, "_test.go") {
			continue
		}
		fns = append(fns, fn)
		for f := fn; f != nil; f = f.Parent() {
			k := funcKey(f)
			if c := g.contracts[k]; (c != nil && !c.Trusted) || g.inlineSet[k] {
				verified[fn] = true
			}
		}
	}
	target := func(f *ssa.Function) *ssa.Function {
		if f.Synthetic != "" {
			if obj, ok := f.Object().(*types.Func); ok {
				if m := g.prog.FuncValue(obj); m != nil {
					return m
				}
			}
		}
		return f
	}
	// functions referenced from verified code; small loop-free helpers
	// without contract are verified inside their callers (auto-inlined), so
	// what they reference counts as well (fixpoint)
	covered := map[*ssa.Function]bool{}
	scanned := map[*ssa.Function]bool{}
	for changed := true; changed; {
		changed = false
		for _, fn := range fns {
			if !verified[fn] || scanned[fn] {
				continue
			}
			scanned[fn] = true
			changed = true
			// in set-up code verified with `opaquecalls` only callees under
			// contract have their preconditions checked
			opaque, stops := false, false
			for f := fn; f != nil; f = f.Parent() {
				if c := g.contracts[funcKey(f)]; c != nil && c.OpaqueCalls {
					opaque = true
				}
				if c := g.contracts[funcKey(f)]; c != nil && c.StopAt != "" {
					stops = true // verified up to the stop site only: what it calls afterwards is not checked
				}
			}
			if stops {
				continue
			}
			mark := func(f *ssa.Function) {
				f = target(f)
				if opaque && g.contracts[funcKey(f)] == nil {
					return
				}
				if os.Getenv("GOVC_DEBUG_ENTRY") != "" && strings.Contains(funcKey(f), os.Getenv("GOVC_DEBUG_ENTRY")) {
					fmt.Fprintln(os.Stderr, "entry-debug:", funcKey(f), "referenced from", funcKey(fn))
				}
				covered[f] = true
				if !verified[f] && g.contracts[funcKey(f)] == nil && isRepoFn(f) && f.Blocks != nil && loopFreeSmall(f) {
					verified[f] = true
				}
			}
			for _, b := range fn.Blocks {
				for _, in := range b.Instrs {
					var ops []*ssa.Value
					for _, op := range in.Operands(ops) {
						if op == nil || *op == nil {
							continue
						}
						switch v := (*op).(type) {
						case *ssa.Function:
							mark(v)
						case *ssa.MakeClosure:
							if f, ok := v.Fn.(*ssa.Function); ok {
								mark(f)
							}
						}
					}
					if ci, ok := in.(ssa.CallInstruction); ok && ci.Common().IsInvoke() {
						// interface call: every implementation in the program
						m := ci.Common().Method
						for _, t := range g.allTypes {
							if sel := g.prog.MethodSets.MethodSet(t).Lookup(m.Pkg(), m.Name()); sel != nil {
								if f := g.prog.MethodValue(sel); f != nil {
									mark(f)
								}
							}
						}
					}
				}
			}
		}
	}
	var out []string
	for _, k := range keys {
		c := g.contracts[k]
		if c == nil || c.Fn == nil || len(c.Requires) == 0 || covered[c.Fn] {
			continue
		}
		var labels []string
		for _, r := range c.Requires {
			labels = append(labels, r.Label)
		}
		out = append(out, fmt.Sprintf("A-ENTRY: %s has no caller under contract (an entry point: called by the application, the Go runtime or tests only): its precondition (%s) is assumed, not checked", k, strings.Join(labels, ", ")))
	}
	sort.Strings(out)
	return out
}
