package main

// Opaque predicates ("opaque pred p(x) = body"): an application is the atom
//   (op!p <args> <the heap values the body reads>)
// of an uninterpreted function. Outside quantifiers the defining instance
// atom == body is also asserted (ground reveal); inside quantifiers only the
// atom appears. The atom's arguments are the values select(H, idx) the body
// reads, so a state change that does not touch those locations leaves the
// arguments equal (read-over-write) -- the frame argument -- while large
// definitions stay out of quantified invariants (guidance: hide definitions
// the proof does not need).
//
// The reads are found exactly: while the body is evaluated every heap array
// is replaced by an alias symbol, so "(select <alias> idx)" occurs in the
// body's term precisely where the body reads the heap.

import (
	"fmt"
	"go/types"
	"sort"
	"strings"
)

func aliasOf(name string) string {
	return "|@R:" + strings.Trim(name, "|") + "|"
}

func (env *Env) callOpaque(sf *SpecFn, sub *Env, vars map[string]SV) SV {
	if env.alias != nil {
		// nested inside another opaque body: evaluate transparently so that
		// the outer atom sees these reads
		return sub.eval(sf.Body)
	}
	alias := map[string]Term{} // heap name -> real term
	inner := *sub
	inner.alias = &alias
	inner.pats = nil
	body := inner.eval(sf.Body)
	bt := env.term(body)
	if bt.Sort != SBool {
		env.fail("opaque %s: body is not boolean", sf.Name)
	}
	// The reads (the atom's extra arguments) are taken from the body
	// evaluated on placeholder parameters, so that every application of the
	// predicate has the same argument list whatever the term constructors
	// fold away for particular arguments (a known type tag, a literal).
	gvars := map[string]SV{}
	for k, v := range sub.vars {
		gvars[k] = v
	}
	var phs, acts []string
	for _, p := range sf.Params {
		a := vars[p.Name]
		at := env.term(a)
		ph := "|@P:" + p.Name + "|"
		phs = append(phs, ph)
		acts = append(acts, at.S)
		if pv, ok := a.V.(PtrV); ok && !a.Loc {
			gvars[p.Name] = SV{V: PtrV{Base: Term{ph, SRef}, Root: pv.Root}, T: a.T}
		} else {
			gvars[p.Name] = SV{V: Scalar{Term{ph, at.Sort}}, T: a.T}
		}
	}
	ginner := inner
	ginner.vars = gvars
	gbt := env.term(ginner.eval(sf.Body))
	bt.S, gbt.S = gbt.S, bt.S // bt: generic body (reads); gbt: body on the actual arguments (definition)
	subst := func(s string) string {
		for i, ph := range phs {
			s = strings.ReplaceAll(s, ph, acts[i])
		}
		return s
	}
	var names []string
	for n := range alias {
		names = append(names, n)
	}
	sort.Strings(names)
	unalias := func(s string) string {
		for _, n := range names {
			s = strings.ReplaceAll(s, aliasOf(n), alias[n].S)
		}
		return s
	}
	var args, sorts []string
	for _, p := range sf.Params {
		t := env.term(vars[p.Name])
		args = append(args, t.S)
		sorts = append(sorts, string(t.Sort))
	}
	for _, n := range names {
		a := aliasOf(n)
		_, vs := splitArraySort(alias[n].Sort)
		prefix := "(select " + a + " "
		seen := map[string]bool{}
		for from := 0; ; {
			k := strings.Index(bt.S[from:], prefix)
			if k < 0 {
				break
			}
			start := from + k + len(prefix)
			end := sexprEnd(bt.S, start)
			if end < 0 {
				break
			}
			idx := bt.S[start:end]
			from = end
			if seen[idx] {
				continue
			}
			seen[idx] = true
			if strings.Contains(idx, "q_") && env.qdepth == 0 && containsBoundVar(idx) {
				// read under a quantifier inside the body: depend on the whole array
				args = append(args, alias[n].S)
				sorts = append(sorts, string(alias[n].Sort))
				continue
			}
			args = append(args, subst(unalias("(select "+a+" "+idx+")")))
			sorts = append(sorts, string(vs))
		}
	}
	real := unalias(gbt.S)
	fname := "op!" + sf.Name
	decl := fmt.Sprintf("(declare-fun %s (%s) Bool)", fname, strings.Join(sorts, " "))
	found := false
	for _, d := range env.s.Decls {
		if d == decl {
			found = true
			break
		}
	}
	if !found {
		env.s.Decls = append(env.s.Decls, decl)
	}
	atom := Term{"(" + fname + " " + strings.Join(args, " ") + ")", SBool}
	if len(args) == 0 {
		atom = Term{fname, SBool}
	}
	if env.qdepth == 0 {
		env.s.assume(Eq(atom, Term{real, SBool}))
	}
	return SV{V: Scalar{atom}, T: types.Typ[types.Bool]}
}

// containsBoundVar: does the index mention a variable bound inside the body
// (quantifier variables are named q_<name>!N)?
func containsBoundVar(idx string) bool {
	return strings.Contains(idx, "q_")
}
