package main

// Contract files: comment-only Go files `zz_contracts_verif.go` in each
// package of /repo (DESIGN.md section 2). Every `//@` line is part of the
// contract text of that package.

import (
	"bufio"
	"fmt"
	"os"
	"path/filepath"
	"regexp"
	"sort"
	"strings"

	"golang.org/x/tools/go/ssa"
)

type Clause struct {
	Label string
	Tags  []string
	Src   string
	Expr  *E
	Line  int
	File  string
}

type GhostStmt struct {
	Kind   string // "" (ghost assignment) | "let" | "assert"
	Name   string // let name
	Clause *Clause
	Site string // call-site name "callee.N" or "entry"/"return"
	When string // "after" (default) | "before"
	LHS  *E
	RHS  *E
	Src  string
	Cond *E
}

type Contract struct {
	Key         string
	Pkg         string
	Fn          *ssa.Function
	Requires    []*Clause
	Ensures     []*Clause
	Assigns     []*Clause
	AssignsAny  bool
	NoPanic     bool
	NoPanicTags []string
	Inline      bool
	Trusted     bool
	MemWrites   bool
	StopAt      string // call site after whose `before` items every path ends (prefix verification; the rest is covered by `flows`)
	Flows       []Flow
	OpaqueCalls bool // calls without model, contract or body to inline yield unconstrained results (tool set-up code)
	Guards      []*Guard
	Rely        []*Clause // assumed after every blocking point (other steps have run meanwhile); old() = just before blocking
	Invariants  []*Clause // closures passed to Range: hold before and after every invocation
	// Async: the function is a timer callback (time.AfterFunc): it runs at an
	// arbitrary later moment, after any number of other steps. Its clauses
	// must imply every `requires` clause, and every function under contract
	// must preserve them for every object (obligation kind "stable").
	Async []*Clause
	DeadReturns map[int]bool // return sites declared unreachable (defensive code)
	LoopInv     map[int][]*Clause
	Ghost       []*GhostStmt
	File        string
	Line        int
	Bound       bool
	Tags        []string // function-level tags (for cover etc.)
	Lets        []*LetDef
}

type LetDef struct {
	Name string
	Expr *E
}

type SpecFn struct {
	Name   string
	Params []QVar
	Ret    *TypeE
	Body   *E
	Pkg    string
	Src    string
	Opaque bool // applications are uninterpreted atoms, revealed only outside quantifiers
}

type GhostField struct {
	Owner string // "pkg.Type"
	Name  string
	Type  *TypeE
}

type Lemma struct {
	Name string
	Tags []string
	Expr *E
	Pkg  string
	Src  string
}

func (c *Contract) AllTags() []string {
	m := map[string]bool{}
	for _, t := range c.Tags {
		m[t] = true
	}
	for _, t := range c.NoPanicTags {
		m[t] = true
	}
	for _, cl := range c.Ensures {
		for _, t := range cl.Tags {
			m[t] = true
		}
	}
	for _, cl := range c.Requires {
		for _, t := range cl.Tags {
			m[t] = true
		}
	}
	for _, cl := range c.Invariants {
		for _, t := range cl.Tags {
			m[t] = true
		}
	}
	for _, cl := range c.Async {
		for _, t := range cl.Tags {
			m[t] = true
		}
	}
	for _, cl := range c.Rely {
		for _, t := range cl.Tags {
			m[t] = true
		}
	}
	for _, f := range c.Flows {
		for _, t := range f.Tags {
			m[t] = true
		}
	}
	for _, cls := range c.LoopInv {
		for _, cl := range cls {
			for _, t := range cl.Tags {
				m[t] = true
			}
		}
	}
	for _, g := range c.Guards {
		for _, t := range g.Tags {
			m[t] = true
		}
	}
	for _, g := range c.Ghost {
		if g.Clause != nil {
			for _, t := range g.Clause.Tags {
				m[t] = true
			}
		}
	}
	var out []string
	for t := range m {
		out = append(out, t)
	}
	sort.Strings(out)
	return out
}

var keywords = map[string]bool{"func": true, "requires": true, "ensures": true, "assigns": true, "nopanic": true,
	"inline": true, "trusted": true, "loop": true, "at": true, "spec": true, "pred": true, "ghost": true,
	"lemma": true, "assumption": true, "rely": true, "async": true, "opaquecalls": true, "stopat": true, "flows": true, "memwrites": true, "tags": true, "let": true, "guarded": true, "invariant": true, "opaque": true, "deadreturn": true}

// Flow: `flows T.F <- x into f`: the (single) struct literal of type T built in
// the function stores into field F the SSA value the local x denotes at the
// stop site, and that struct is handed to the (single) call of f.
type Flow struct {
	Type, Field, Local, Into string
	Tags                    []string
}

// Guard: fields of the receiver that may only be accessed while Mutex is held.
type Guard struct {
	Mutex  string
	Fields []string
	Tags   []string
}

var tagRe = regexp.MustCompile(`^\[([A-Z0-9, ]+)\]\s*`)
var labelRe = regexp.MustCompile(`^([A-Za-z_][A-Za-z0-9_]*):(?:[^:]|$)`)

// Assumption: a named, unchecked assumption a property's proof rests on
// (`//@ assumption [tags] NAME: text`); echoed into the evidence of every
// property it is tagged with.
type Assumption struct {
	Tags []string
	Text string
}

type contractSet struct {
	assumptions []*Assumption
	contracts map[string]*Contract
	specs     map[string]*SpecFn
	ghosts    map[string]*GhostField
	lemmas    []*Lemma
	inline    map[string]bool
}

func parseTags(s string) ([]string, string) {
	m := tagRe.FindStringSubmatch(s)
	if m == nil {
		return nil, s
	}
	var tags []string
	for _, t := range strings.Split(m[1], ",") {
		t = strings.TrimSpace(t)
		if t != "" {
			tags = append(tags, t)
		}
	}
	return tags, s[len(m[0]):]
}

func parseClause(rest, file string, line int) (*Clause, error) {
	tags, rest := parseTags(strings.TrimSpace(rest))
	label := ""
	if m := labelRe.FindStringSubmatch(rest); m != nil {
		label = m[1]
		rest = strings.TrimSpace(rest[len(m[1])+1:])
	}
	e, err := parseSpecExpr(rest)
	if err != nil {
		return nil, fmt.Errorf("%s:%d: %v", file, line, err)
	}
	return &Clause{Label: label, Tags: tags, Src: rest, Expr: e, Line: line, File: file}, nil
}

// loadContracts reads every zz_contracts_verif.go under root.
func loadContracts(root string) (*contractSet, error) {
	cs := &contractSet{contracts: map[string]*Contract{}, specs: map[string]*SpecFn{}, ghosts: map[string]*GhostField{}, inline: map[string]bool{}}
	var files []string
	filepath.Walk(root, func(p string, info os.FileInfo, err error) error {
		if err == nil && !info.IsDir() && strings.HasSuffix(p, "_contracts_verif.go") {
			files = append(files, p)
		}
		return nil
	})
	sort.Strings(files)
	for _, f := range files {
		if err := cs.parseFile(root, f); err != nil {
			return nil, err
		}
	}
	return cs, nil
}

func (cs *contractSet) parseFile(root, file string) error {
	fh, err := os.Open(file)
	if err != nil {
		return err
	}
	defer fh.Close()
	rel, _ := filepath.Rel(root, filepath.Dir(file))
	pkg := filepath.ToSlash(rel)
	if pkg == "." {
		pkg = ""
	}
	// gather logical clauses: a clause starts at a line whose first word is a
	// keyword and continues over following non-keyword lines
	type lc struct {
		text string
		line int
	}
	var clauses []lc
	sc := bufio.NewScanner(fh)
	sc.Buffer(make([]byte, 1<<20), 1<<20)
	ln := 0
	for sc.Scan() {
		ln++
		t := strings.TrimSpace(sc.Text())
		if !strings.HasPrefix(t, "//@") {
			continue
		}
		t = strings.TrimSpace(strings.TrimPrefix(t, "//@"))
		if t == "" || strings.HasPrefix(t, "#") {
			continue
		}
		// strip trailing comments introduced by " // "
		if i := strings.Index(t, " // "); i >= 0 {
			t = strings.TrimSpace(t[:i])
		}
		first := t
		if i := strings.IndexAny(t, " \t"); i >= 0 {
			first = t[:i]
		}
		if keywords[first] {
			clauses = append(clauses, lc{t, ln})
		} else if len(clauses) > 0 {
			clauses[len(clauses)-1].text += " " + t
		} else {
			return fmt.Errorf("%s:%d: text before first keyword", file, ln)
		}
	}
	var cur *Contract
	for _, c := range clauses {
		word, rest := c.text, ""
		if i := strings.IndexAny(c.text, " \t"); i >= 0 {
			word, rest = c.text[:i], strings.TrimSpace(c.text[i+1:])
		}
		switch word {
		case "func":
			key := pkg + "." + rest
			if cs.contracts[key] != nil {
				// further clauses for a function already under contract
				// (contracts may be grouped by property)
				cur = cs.contracts[key]
				continue
			}
			cur = &Contract{Key: key, Pkg: pkg, LoopInv: map[int][]*Clause{}, File: file, Line: c.line}
			cs.contracts[key] = cur
		case "inline":
			if rest != "" {
				cs.inline[pkg+"."+rest] = true
				continue
			}
			if cur == nil {
				return fmt.Errorf("%s:%d: inline outside func", file, c.line)
			}
			cur.Inline = true
		case "nopanic":
			tags, _ := parseTags(rest)
			cur.NoPanic = true
			cur.NoPanicTags = tags
		case "tags":
			tags, _ := parseTags(rest)
			cur.Tags = append(cur.Tags, tags...)
		case "trusted":
			cur.Trusted = true
		case "opaquecalls":
			cur.OpaqueCalls = true
		case "stopat":
			cur.StopAt = strings.TrimSpace(rest)
		case "flows":
			// flows [tags] Type.Field <- local into callee
			tags, r2 := parseTags(rest)
			f := strings.Fields(r2)
			if len(f) != 5 || f[1] != "<-" || f[3] != "into" || !strings.Contains(f[0], ".") {
				return fmt.Errorf("%s:%d: flows needs `Type.Field <- local into callee`", file, c.line)
			}
			tf := strings.SplitN(f[0], ".", 2)
			cur.Flows = append(cur.Flows, Flow{Type: tf[0], Field: tf[1], Local: f[2], Into: f[4], Tags: tags})
		case "memwrites":
			cur.MemWrites = true
		case "deadreturn":
			// deadreturn N [free text reason]
			var n int
			if _, err := fmt.Sscanf(rest, "%d", &n); err != nil {
				return fmt.Errorf("%s:%d: deadreturn needs an ordinal", file, c.line)
			}
			if cur.DeadReturns == nil {
				cur.DeadReturns = map[int]bool{}
			}
			cur.DeadReturns[n] = true
		case "guarded":
			// guarded [tags] <mutexField>: f1, f2
			tags, r2 := parseTags(rest)
			i := strings.Index(r2, ":")
			if i < 0 {
				return fmt.Errorf("%s:%d: guarded needs ':'", file, c.line)
			}
			g := &Guard{Mutex: strings.TrimSpace(r2[:i]), Tags: tags}
			for _, f := range strings.Split(r2[i+1:], ",") {
				g.Fields = append(g.Fields, strings.TrimSpace(f))
			}
			cur.Guards = append(cur.Guards, g)
		case "requires", "ensures", "invariant", "rely", "async":
			cl, err := parseClause(rest, file, c.line)
			if err != nil {
				return err
			}
			if word == "async" {
				if cl.Label == "" {
					cl.Label = fmt.Sprintf("a%d", len(cur.Async))
				}
				cur.Async = append(cur.Async, cl)
			} else if word == "rely" {
				if cl.Label == "" {
					cl.Label = fmt.Sprintf("y%d", len(cur.Rely))
				}
				cur.Rely = append(cur.Rely, cl)
			} else if word == "invariant" {
				if cl.Label == "" {
					cl.Label = fmt.Sprintf("v%d", len(cur.Invariants))
				}
				cur.Invariants = append(cur.Invariants, cl)
			} else if word == "requires" {
				if cl.Label == "" {
					cl.Label = fmt.Sprintf("r%d", len(cur.Requires))
				}
				cur.Requires = append(cur.Requires, cl)
			} else {
				if cl.Label == "" {
					cl.Label = fmt.Sprintf("e%d", len(cur.Ensures))
				}
				cur.Ensures = append(cur.Ensures, cl)
			}
		case "let":
			i := strings.Index(rest, "=")
			if i < 0 {
				return fmt.Errorf("%s:%d: let needs =", file, c.line)
			}
			e, err := parseSpecExpr(strings.TrimSpace(rest[i+1:]))
			if err != nil {
				return fmt.Errorf("%s:%d: %v", file, c.line, err)
			}
			cur.Lets = append(cur.Lets, &LetDef{Name: strings.TrimSpace(rest[:i]), Expr: e})
		case "assigns":
			if strings.TrimSpace(rest) == "*" {
				cur.AssignsAny = true
				continue
			}
			for _, lv := range splitTop(rest, ',') {
				e, err := parseSpecExpr(strings.TrimSpace(lv))
				if err != nil {
					return fmt.Errorf("%s:%d: %v", file, c.line, err)
				}
				cur.Assigns = append(cur.Assigns, &Clause{Src: lv, Expr: e, Line: c.line, File: file})
			}
		case "loop":
			// loop N invariant [tags] label: expr
			var n int
			var kw string
			parts := strings.SplitN(rest, " ", 3)
			if len(parts) < 3 {
				return fmt.Errorf("%s:%d: bad loop clause", file, c.line)
			}
			fmt.Sscanf(parts[0], "%d", &n)
			kw = parts[1]
			if kw != "invariant" {
				return fmt.Errorf("%s:%d: expected 'invariant'", file, c.line)
			}
			cl, err := parseClause(parts[2], file, c.line)
			if err != nil {
				return err
			}
			if cl.Label == "" {
				cl.Label = fmt.Sprintf("i%d", len(cur.LoopInv[n]))
			}
			cur.LoopInv[n] = append(cur.LoopInv[n], cl)
		case "at":
			// at <site> [before|after] let name = expr
			// at <site> [before|after] assert [tags] label: expr
			isItem := func(w string) bool { return w == "let" || w == "assert" || w == "check" }
			if f := strings.Fields(rest); len(f) >= 3 && (isItem(f[1]) || ((f[1] == "before" || f[1] == "after") && isItem(f[2]))) {
				gs := &GhostStmt{Site: f[0], When: "after"}
				k := 1
				if f[1] == "before" || f[1] == "after" {
					gs.When = f[1]
					k = 2
				}
				gs.Kind = f[k]
				body := strings.TrimSpace(rest[strings.Index(rest, " "+f[k]+" ")+len(f[k])+2:])
				gs.Src = body
				if gs.Kind == "let" {
					i := strings.Index(body, "=")
					if i < 0 {
						return fmt.Errorf("%s:%d: let needs =", file, c.line)
					}
					gs.Name = strings.TrimSpace(body[:i])
					e, err := parseSpecExpr(strings.TrimSpace(body[i+1:]))
					if err != nil {
						return fmt.Errorf("%s:%d: %v", file, c.line, err)
					}
					gs.RHS = e
				} else {
					cl, err := parseClause(body, file, c.line)
					if err != nil {
						return err
					}
					gs.Clause = cl
				}
				cur.Ghost = append(cur.Ghost, gs)
				continue
			}
			// at <site> [before] ghost [if cond ::] lv = expr
			parts := strings.SplitN(rest, " ghost ", 2)
			if len(parts) != 2 {
				return fmt.Errorf("%s:%d: bad at clause", file, c.line)
			}
			site := strings.Fields(parts[0])
			gs := &GhostStmt{Site: site[0], When: "after", Src: parts[1]}
			if len(site) > 1 {
				gs.When = site[1]
			}
			body := parts[1]
			if strings.HasPrefix(body, "if ") {
				i := strings.Index(body, "::")
				ce, err := parseSpecExpr(strings.TrimSpace(body[3:i]))
				if err != nil {
					return fmt.Errorf("%s:%d: %v", file, c.line, err)
				}
				gs.Cond = ce
				body = strings.TrimSpace(body[i+2:])
			}
			i := strings.Index(body, " = ")
			if i < 0 {
				return fmt.Errorf("%s:%d: ghost statement needs ' = '", file, c.line)
			}
			l, err := parseSpecExpr(strings.TrimSpace(body[:i]))
			if err != nil {
				return fmt.Errorf("%s:%d: %v", file, c.line, err)
			}
			r, err := parseSpecExpr(strings.TrimSpace(body[i+3:]))
			if err != nil {
				return fmt.Errorf("%s:%d: %v", file, c.line, err)
			}
			gs.LHS, gs.RHS = l, r
			cur.Ghost = append(cur.Ghost, gs)
		case "spec", "pred", "opaque":
			// spec name(a T, b U) R = expr     pred name(a T) = expr     opaque pred name(a T) = expr
			isOpaque := word == "opaque"
			if isOpaque {
				rest = strings.TrimSpace(strings.TrimPrefix(strings.TrimPrefix(rest, "pred"), "spec"))
			}
			i := strings.Index(rest, "(")
			j := matchParen(rest, i)
			if i < 0 || j < 0 {
				return fmt.Errorf("%s:%d: bad spec header", file, c.line)
			}
			name := strings.TrimSpace(rest[:i])
			var params []QVar
			for _, p := range splitTop(rest[i+1:j], ',') {
				p = strings.TrimSpace(p)
				if p == "" {
					continue
				}
				k := strings.IndexAny(p, " \t")
				if k < 0 {
					return fmt.Errorf("%s:%d: bad param %q", file, c.line, p)
				}
				te, err := parseTypeExpr(strings.TrimSpace(p[k+1:]))
				if err != nil {
					return fmt.Errorf("%s:%d: %v", file, c.line, err)
				}
				params = append(params, QVar{p[:k], te})
			}
			after := rest[j+1:]
			k := strings.Index(after, "=")
			if k < 0 {
				return fmt.Errorf("%s:%d: spec needs =", file, c.line)
			}
			var ret *TypeE
			if rt := strings.TrimSpace(after[:k]); rt != "" {
				te, err := parseTypeExpr(rt)
				if err != nil {
					return fmt.Errorf("%s:%d: %v", file, c.line, err)
				}
				ret = te
			}
			body, err := parseSpecExpr(strings.TrimSpace(after[k+1:]))
			if err != nil {
				return fmt.Errorf("%s:%d: %v", file, c.line, err)
			}
			cs.specs[name] = &SpecFn{Name: name, Params: params, Ret: ret, Body: body, Pkg: pkg, Src: rest, Opaque: isOpaque}
		case "ghost":
			// ghost Type.field type
			parts := strings.Fields(rest)
			if len(parts) < 2 {
				return fmt.Errorf("%s:%d: bad ghost decl", file, c.line)
			}
			on := strings.SplitN(parts[0], ".", 2)
			te, err := parseTypeExpr(strings.Join(parts[1:], " "))
			if err != nil {
				return fmt.Errorf("%s:%d: %v", file, c.line, err)
			}
			gf := &GhostField{Owner: pkg + "." + on[0], Name: on[1], Type: te}
			cs.ghosts[gf.Owner+"."+gf.Name] = gf
		case "assumption":
			tags, r2 := parseTags(rest)
			cs.assumptions = append(cs.assumptions, &Assumption{Tags: tags, Text: strings.TrimSpace(r2)})
		case "lemma":
			tags, r2 := parseTags(rest)
			i := strings.Index(r2, ":")
			e, err := parseSpecExpr(strings.TrimSpace(r2[i+1:]))
			if err != nil {
				return fmt.Errorf("%s:%d: %v", file, c.line, err)
			}
			cs.lemmas = append(cs.lemmas, &Lemma{Name: strings.TrimSpace(r2[:i]), Tags: tags, Expr: e, Pkg: pkg, Src: r2})
		}
	}
	return nil
}

func parseTypeExpr(src string) (te *TypeE, err error) {
	toks, err := tokenize(src)
	if err != nil {
		return nil, err
	}
	sp := &sparser{toks: toks, src: src}
	defer func() {
		if r := recover(); r != nil {
			err = fmt.Errorf("type parse error: %v in %q", r, src)
		}
	}()
	te = sp.typ()
	return te, nil
}

func matchParen(s string, i int) int {
	if i < 0 {
		return -1
	}
	d := 0
	for j := i; j < len(s); j++ {
		switch s[j] {
		case '(':
			d++
		case ')':
			d--
			if d == 0 {
				return j
			}
		}
	}
	return -1
}

func splitTop(s string, sep byte) []string {
	var out []string
	d := 0
	last := 0
	for i := 0; i < len(s); i++ {
		switch s[i] {
		case '(', '[', '{':
			d++
		case ')', ']', '}':
			d--
		default:
			if s[i] == sep && d == 0 {
				out = append(out, s[last:i])
				last = i + 1
			}
		}
	}
	out = append(out, s[last:])
	return out
}
