package main

import (
	"encoding/json"
	"flag"
	"fmt"
	"go/types"
	"os"
	"path/filepath"
	"sort"
	"strings"
	"time"

	"golang.org/x/tools/go/packages"
	"golang.org/x/tools/go/ssa"
	"golang.org/x/tools/go/ssa/ssautil"
)

type funcIndex map[string]*ssa.Function

var keepAll bool

// repoRoot: the tree under verification (flag -repo; /repo unless a scratch copy is checked).
var repoRoot = "/repo"

func loadProgram(repo string, debug bool) (*G, funcIndex, error) {
	cfg := &packages.Config{Mode: packages.LoadAllSyntax, Dir: repo, BuildFlags: []string{"-tags=verif"},
		Env: append(os.Environ(), "GOFLAGS=-mod=mod", "GOPROXY=off", "GOSUMDB=off", "GOTOOLCHAIN=local")}
	pkgs, err := packages.Load(cfg, "./...")
	if err != nil {
		return nil, nil, err
	}
	nerr := 0
	packages.Visit(pkgs, nil, func(p *packages.Package) {
		if strings.HasPrefix(p.PkgPath, repoPrefix) {
			for _, e := range p.Errors {
				fmt.Fprintln(os.Stderr, "load error:", e)
				nerr++
			}
		}
	})
	if nerr > 0 {
		return nil, nil, fmt.Errorf("%d package load errors", nerr)
	}
	prog, _ := ssautil.AllPackages(pkgs, ssa.InstantiateGenerics|ssa.GlobalDebug) // GlobalDebug: DebugRef instructions name the source-level locals (used by loop invariants)
	for _, p := range prog.AllPackages() {
		path := p.Pkg.Path()
		if strings.HasPrefix(path, repoPrefix) || path == "github.com/eclipse/paho.mqtt.golang/packets" {
			p.Build()
		}
	}
	g := &G{prog: prog, fset: prog.Fset, pkgs: map[string]*ssa.Package{}, tags: newTagTable(), strlits: map[string]string{},
		inlineSet: map[string]bool{}, debug: debug, fnIDs: map[string]int{}}
	for _, p := range prog.AllPackages() {
		g.pkgs[p.Pkg.Path()] = p
	}
	// function index and type universe
	idx := funcIndex{}
	var addFn func(f *ssa.Function)
	addFn = func(f *ssa.Function) {
		if f == nil {
			return
		}
		idx[funcKey(f)] = f
		for _, a := range f.AnonFuncs {
			addFn(a)
		}
	}
	var paths []string
	for path := range g.pkgs {
		paths = append(paths, path)
	}
	sort.Strings(paths)
	for _, path := range paths {
		p := g.pkgs[path]
		inRepo := strings.HasPrefix(path, repoPrefix)
		isPaho := path == "github.com/eclipse/paho.mqtt.golang/packets"
		if !inRepo && !isPaho {
			continue
		}
		var names []string
		for n := range p.Members {
			names = append(names, n)
		}
		sort.Strings(names)
		for _, n := range names {
			switch m := p.Members[n].(type) {
			case *ssa.Function:
				if inRepo {
					addFn(m)
				}
			case *ssa.Type:
				t := m.Type()
				if _, isIface := t.Underlying().(*types.Interface); isIface {
					continue
				}
				for _, tt := range []types.Type{t, types.NewPointer(t)} {
					g.allTypes = append(g.allTypes, tt)
					g.tags.tag(tt)
					if inRepo {
						ms := prog.MethodSets.MethodSet(tt)
						for i := 0; i < ms.Len(); i++ {
							if f := prog.MethodValue(ms.At(i)); f != nil && f.Synthetic == "" {
								addFn(f)
							}
						}
					}
				}
			}
		}
	}
	for _, b := range []types.BasicKind{types.Bool, types.Int, types.Uint8, types.Uint16, types.Uint32, types.Uint64, types.Int64, types.String, types.Uint} {
		g.tags.tag(types.Typ[b])
	}
	return g, idx, nil
}

func bindContracts(g *G, idx funcIndex, cs *contractSet) []string {
	var unbound []string
	g.contracts = map[string]*Contract{}
	g.specs = cs.specs
	g.ghosts = cs.ghosts
	for k := range cs.inline {
		if idx[k] == nil {
			unbound = append(unbound, "inline "+k)
		}
		g.inlineSet[k] = true
	}
	for k, c := range cs.contracts {
		f := idx[k]
		if f == nil {
			unbound = append(unbound, k)
			continue
		}
		c.Fn = f
		c.Bound = true
		g.contracts[k] = c
	}
	sort.Strings(unbound)
	return unbound
}

func newExec(g *G, fn *ssa.Function, con *Contract) *Exec {
	return &Exec{g: g, fn: fn, key: funcKey(fn), con: con, maxPaths: 20000,
		ordinals: map[ssa.Instruction]int{}, ordKind: map[ssa.Instruction]string{}, callOrd: map[ssa.Instruction]string{},
		usedTrusted: map[string]bool{}, usedAssume: map[string]bool{}, covers: map[string]bool{}}
}

func hasTag(tags []string, p string) bool {
	for _, t := range tags {
		if t == p {
			return true
		}
	}
	return false
}

func main() {
	if len(os.Args) < 2 {
		fmt.Fprintln(os.Stderr, "usage: govc check <PROP> | dump <funcKey> | list")
		os.Exit(2)
	}
	cmd := os.Args[1]
	fs := flag.NewFlagSet(cmd, flag.ExitOnError)
	repo := fs.String("repo", "/repo", "repository root")
	out := fs.String("out", "/verif", "verif root")
	thorough := fs.Bool("thorough", false, "thorough tier")
	debug := fs.Bool("debug", false, "trace instructions")
	keep := fs.Bool("keep", false, "keep all SMT files")
	var pos []string
	args := os.Args[2:]
	for len(args) > 0 && !strings.HasPrefix(args[0], "-") {
		pos = append(pos, args[0])
		args = args[1:]
	}
	fs.Parse(args)
	pos = append(pos, fs.Args()...)
	keepAll = *keep
	repoRoot = strings.TrimSuffix(*repo, "/")
	switch cmd {
	case "check":
		if len(pos) != 1 {
			fmt.Fprintln(os.Stderr, "usage: govc check <PROP>")
			os.Exit(2)
		}
		os.Exit(runCheck(pos[0], *repo, *out, *thorough, *debug))
	case "replay":
		if len(pos) != 2 {
			fmt.Fprintln(os.Stderr, "usage: govc replay <PROP> <path>")
			os.Exit(2)
		}
		os.Exit(runReplay(pos[0], pos[1], *out))
	case "dump":
		os.Exit(runDump(pos, *repo, *out, *debug))
	case "list":
		g, idx, err := loadProgram(*repo, false)
		if err != nil {
			fmt.Fprintln(os.Stderr, err)
			os.Exit(2)
		}
		_ = g
		var ks []string
		for k := range idx {
			ks = append(ks, k)
		}
		sort.Strings(ks)
		for _, k := range ks {
			fmt.Println(k)
		}
	default:
		fmt.Fprintln(os.Stderr, "unknown command", cmd)
		os.Exit(2)
	}
}

func runDump(pos []string, repo, out string, debug bool) int {
	g, idx, err := loadProgram(repo, debug)
	if err != nil {
		fmt.Fprintln(os.Stderr, err)
		return 2
	}
	cs, err := loadContracts(repo)
	if err != nil {
		fmt.Fprintln(os.Stderr, err)
		return 2
	}
	if ub := bindContracts(g, idx, cs); len(ub) > 0 {
		fmt.Fprintln(os.Stderr, "unbound contracts:", ub)
	}
	dir := filepath.Join(out, "work", "dump")
	os.RemoveAll(dir)
	rc := 0
	for _, k := range pos {
		fn := idx[k]
		if fn == nil {
			fmt.Fprintln(os.Stderr, "no such function:", k)
			return 2
		}
		ex := newExec(g, fn, g.contracts[k])
		if err := ex.run(); err != nil {
			fmt.Println("ERROR:", err)
			rc = 1
		}
		g.solveAll(ex.obls, dir, 10000, false)
		if keepAll {
			for i, o := range ex.obls {
				if o.Solver != "syntactic" {
					os.WriteFile(filepath.Join(dir, fmt.Sprintf("k%04d_%s.smt2", i, sanitizeFile(o.Name))), []byte(g.queryText(o, false)), 0o644)
				}
			}
		}
		for _, o := range ex.obls {
			st := o.Result
			if o.Cover {
				st = "cover:" + st
			}
			fmt.Printf("%-8s %-7s %6.2fs %s %v  [%s]\n", st, o.Solver, o.Secs, o.Name, o.Tags, o.Pos)
		}
		fmt.Printf("%s: %d paths, %d obligations\n", k, ex.paths, len(ex.obls))
	}
	return rc
}

// ---- check -------------------------------------------------------------------

type evidence struct {
	PropertyID  string                 `json:"property_id"`
	Tier        string                 `json:"tier"`
	Seed        int                    `json:"seed"`
	Level       string                 `json:"level"`
	Coverage    map[string]interface{} `json:"coverage"`
	Assumptions []string               `json:"assumptions"`
	WallS       float64                `json:"wall_s"`
	Violations  int                    `json:"violations"`
}

func runCheck(prop, repo, out string, thorough, debug bool) int {
	t0 := time.Now()
	tier := "quick"
	if thorough {
		tier = "thorough"
	}
	seed := 0
	fmt.Sscanf(os.Getenv("VERIF_SEED"), "%d", &seed)
	replayDir := filepath.Join(out, "replays", prop)
	os.RemoveAll(replayDir)
	os.MkdirAll(replayDir, 0o755)
	failClosed := func(reason string) int {
		p := filepath.Join(replayDir, "engine_failure.txt")
		os.WriteFile(p, []byte("property "+prop+": undecided\n"+reason+"\n"), 0o644)
		fmt.Printf("VIOLATION property=%s replay=%s no-failing-input-found\n", prop, p)
		fmt.Println("reason:", reason)
		writeEvidence(out, evidence{PropertyID: prop, Tier: tier, Seed: seed, Level: "proof",
			Coverage: map[string]interface{}{"obligations": 1, "discharged": 0, "checker_cmd": "govc check " + prop, "trusted_base": []string{},
				"evaluations": 1, "distinct_nontrivial": 0, "explanation": "engine failure: " + reason},
			WallS: time.Since(t0).Seconds(), Violations: 1})
		return 1
	}
	g, idx, err := loadProgram(repo, debug)
	if err != nil {
		return failClosed("cannot load /repo: " + err.Error())
	}
	cs, err := loadContracts(repo)
	if err != nil {
		return failClosed("contract files: " + err.Error())
	}
	unbound := bindContracts(g, idx, cs)
	// fail closed only for contracts relevant to this property
	for _, k := range unbound {
		c := cs.contracts[k]
		if c == nil || hasTag(c.AllTags(), prop) {
			return failClosed("contract-unbound:" + k)
		}
	}
	pc := propConfigs[prop]
	return pc.run(prop, g, idx, cs, out, replayDir, tier, seed, t0, failClosed)
}

// evidenceDir is where a run records what it covered. Only a run on the real
// repository (/repo) writes /verif/evidence; a run on a scratch copy (-repo,
// used by tools/selftest.py for the must-fail corpus) writes under work/, so a
// deliberately broken tree can never overwrite the evidence of the real one.
func evidenceDir(out string) string {
	if repoRoot != "/repo" {
		return filepath.Join(out, "work", "scratch-evidence")
	}
	return filepath.Join(out, "evidence")
}

func writeEvidence(out string, ev evidence) {
	if ev.Assumptions == nil {
		ev.Assumptions = []string{}
	}
	dir := evidenceDir(out)
	os.MkdirAll(dir, 0o755)
	b, _ := json.MarshalIndent(ev, "", " ")
	os.WriteFile(filepath.Join(dir, ev.PropertyID+".json"), append(b, '\n'), 0o644)
}
