package main

// SMT term layer: sorts, typed terms, Go-type -> sort mapping, bit-vector
// arithmetic with Go semantics (section 3.1/3.2 of DESIGN.md).

import (
	"fmt"
	"go/constant"
	"go/types"
	"math/big"
	"regexp"
	"sort"
	"strings"
	"sync"
)

type Sort string

const (
	SBool  Sort = "Bool"
	SRef   Sort = "Int" // pointers to whole heap objects, maps, chans, funcs
	SStr   Sort = "Str"
	SIface Sort = "Iface"
	SSlice Sort = "Slice"
	SUnit  Sort = "Unit" // zero-size / ignored (mutexes etc.)
)

func SBV(n int) Sort { return Sort(fmt.Sprintf("(_ BitVec %d)", n)) }

func (s Sort) IsBV() bool { return strings.HasPrefix(string(s), "(_ BitVec") }
func (s Sort) Width() int {
	var n int
	fmt.Sscanf(string(s), "(_ BitVec %d)", &n)
	return n
}

func SArray(k, v Sort) Sort { return Sort(fmt.Sprintf("(Array %s %s)", k, v)) }

// Term is an SMT-LIB term with its sort.
type Term struct {
	S    string
	Sort Sort
}

func (t Term) String() string { return t.S }

// Preamble declared in every query.
const smtPreamble = `(set-option :produce-models true)
(set-logic ALL)
(declare-sort Str 0)
(declare-fun slen (Str) (_ BitVec 64))
(declare-fun sat (Str (_ BitVec 64)) (_ BitVec 8))
(declare-const str_empty Str)
(assert (= (slen str_empty) (_ bv0 64)))
(declare-datatypes ((Slice 0)) (((mkSlice (sbase Int) (soff (_ BitVec 64)) (slen_ (_ BitVec 64)) (scap (_ BitVec 64))))))
(declare-datatypes ((Iface 0)) (((mkI (itag Int) (iref Int) (ibv (_ BitVec 64)) (istr Str)))))
(declare-datatypes ((Unit 0)) (((unit))))
`

var (
	TTrue  = Term{"true", SBool}
	TFalse = Term{"false", SBool}
	TNilI  = Term{"(mkI 0 0 (_ bv0 64) str_empty)", SIface}
	TNilS  = Term{"(mkSlice 0 (_ bv0 64) (_ bv0 64) (_ bv0 64))", SSlice}
	TNilR  = Term{"0", SRef}
	TUnit  = Term{"unit", SUnit}
)

func BVLit(v uint64, w int) Term {
	if w < 64 {
		v &= (1 << uint(w)) - 1
	}
	return Term{fmt.Sprintf("(_ bv%d %d)", v, w), SBV(w)}
}

func BVLitBig(v *big.Int, w int) Term {
	m := new(big.Int).Lsh(big.NewInt(1), uint(w))
	x := new(big.Int).Mod(v, m)
	if x.Sign() < 0 {
		x.Add(x, m)
	}
	return Term{fmt.Sprintf("(_ bv%s %d)", x.String(), w), SBV(w)}
}

func IntLit(v int64) Term {
	if v < 0 {
		return Term{fmt.Sprintf("(- %d)", -v), SRef}
	}
	return Term{fmt.Sprintf("%d", v), SRef}
}

func App(sort Sort, op string, args ...Term) Term {
	var b strings.Builder
	b.WriteString("(")
	b.WriteString(op)
	for _, a := range args {
		b.WriteString(" ")
		b.WriteString(a.S)
	}
	b.WriteString(")")
	return Term{b.String(), sort}
}

func Not(a Term) Term {
	if a.S == "true" {
		return TFalse
	}
	if a.S == "false" {
		return TTrue
	}
	return App(SBool, "not", a)
}
func And(as ...Term) Term {
	var xs []Term
	for _, a := range as {
		if a.S == "true" {
			continue
		}
		if a.S == "false" {
			return TFalse
		}
		xs = append(xs, a)
	}
	if len(xs) == 0 {
		return TTrue
	}
	if len(xs) == 1 {
		return xs[0]
	}
	return App(SBool, "and", xs...)
}
func Or(as ...Term) Term {
	var xs []Term
	for _, a := range as {
		if a.S == "false" {
			continue
		}
		if a.S == "true" {
			return TTrue
		}
		xs = append(xs, a)
	}
	if len(xs) == 0 {
		return TFalse
	}
	if len(xs) == 1 {
		return xs[0]
	}
	return App(SBool, "or", xs...)
}
func Implies(a, b Term) Term {
	if a.S == "true" {
		return b
	}
	if a.S == "false" || b.S == "true" {
		return TTrue
	}
	return App(SBool, "=>", a, b)
}
func Eq(a, b Term) Term {
	if a.Sort != b.Sort {
		panic(fmt.Sprintf("Eq: sort mismatch %s:%s vs %s:%s", a.S, a.Sort, b.S, b.Sort))
	}
	if a.S == b.S {
		return TTrue
	}
	// two different literals (type tags, references, bit-vector constants)
	if isLiteral(a.S) && isLiteral(b.S) {
		return TFalse
	}
	return App(SBool, "=", a, b)
}
func Ite(c, a, b Term) Term {
	if c.S == "true" {
		return a
	}
	if c.S == "false" {
		return b
	}
	if a.Sort != b.Sort {
		panic(fmt.Sprintf("Ite: sort mismatch %s vs %s", a.Sort, b.Sort))
	}
	return App(a.Sort, "ite", c, a, b)
}
func Select(arr, idx Term) Term {
	// (Array K V)
	s := string(arr.Sort)
	if !strings.HasPrefix(s, "(Array ") {
		panic("Select on non-array " + s + " term " + arr.S)
	}
	_, v := splitArraySort(arr.Sort)
	// read-over-write simplification when the indices are syntactically
	// equal or syntactically distinct (fresh refs A0+k, literals)
	cur := arr.S
	for strings.HasPrefix(cur, "(store ") {
		args := splitTopArgs(cur[len("(store ") : len(cur)-1])
		if len(args) != 3 {
			break
		}
		if args[1] == idx.S {
			return Term{args[2], v}
		}
		if !syntacticallyDistinct(args[1], idx.S) {
			break
		}
		cur = args[0]
	}
	return App(v, "select", Term{cur, arr.Sort}, idx)
}

var freshRefRe = regexp.MustCompile(`^(A0|\(\+ A0 \d+\))$`)
var bvLitRe = regexp.MustCompile(`^\(_ bv\d+ \d+\)$`)
var intLitRe = regexp.MustCompile(`^(\d+|\(- \d+\))$`)

func syntacticallyDistinct(a, b string) bool {
	if a == b {
		return false
	}
	if freshRefRe.MatchString(a) && freshRefRe.MatchString(b) {
		return true
	}
	if bvLitRe.MatchString(a) && bvLitRe.MatchString(b) {
		return true
	}
	if intLitRe.MatchString(a) && intLitRe.MatchString(b) {
		return true
	}
	// a fresh ref is never 0 or negative (A0 > 0)
	if (freshRefRe.MatchString(a) && intLitRe.MatchString(b)) || (freshRefRe.MatchString(b) && intLitRe.MatchString(a)) {
		return true
	}
	return false
}

// splitTopArgs splits "a (b c) d" into top-level s-expression arguments.
func splitTopArgs(s string) []string {
	var out []string
	depth := 0
	start := -1
	inBar := false
	for i := 0; i < len(s); i++ {
		c := s[i]
		if inBar {
			if c == '|' {
				inBar = false
			}
			continue
		}
		switch c {
		case '|':
			inBar = true
			if start < 0 {
				start = i
			}
		case '(':
			if depth == 0 && start < 0 {
				start = i
			}
			depth++
		case ')':
			depth--
			if depth == 0 {
				out = append(out, s[start:i+1])
				start = -1
			}
		case ' ', '\n', '\t':
			if depth == 0 && start >= 0 {
				out = append(out, s[start:i])
				start = -1
			}
		default:
			if start < 0 {
				start = i
			}
		}
	}
	if start >= 0 {
		out = append(out, s[start:])
	}
	return out
}
func Store(arr, idx, val Term) Term {
	k, v := splitArraySort(arr.Sort)
	if idx.Sort != k || val.Sort != v {
		panic(fmt.Sprintf("Store: sort mismatch arr=%s idx=%s val=%s (%s)", arr.Sort, idx.Sort, val.Sort, val.S))
	}
	return App(arr.Sort, "store", arr, idx, val)
}

func splitArraySort(s Sort) (Sort, Sort) {
	str := strings.TrimSuffix(strings.TrimPrefix(string(s), "(Array "), ")")
	// first sort token
	depth := 0
	for i, c := range str {
		switch c {
		case '(':
			depth++
		case ')':
			depth--
		case ' ':
			if depth == 0 {
				return Sort(str[:i]), Sort(str[i+1:])
			}
		}
	}
	panic("bad array sort " + string(s))
}

// Slice accessors
func ctorArg(t Term, ctor string, i int, sort Sort, acc string) Term {
	if strings.HasPrefix(t.S, "("+ctor+" ") {
		if args := splitTopArgs(t.S[len(ctor)+2 : len(t.S)-1]); len(args) > i {
			return Term{args[i], sort}
		}
	}
	return App(sort, acc, t)
}
func SlBase(s Term) Term { return ctorArg(s, "mkSlice", 0, SRef, "sbase") }
func SlOff(s Term) Term  { return ctorArg(s, "mkSlice", 1, SBV(64), "soff") }
func SlLen(s Term) Term  { return ctorArg(s, "mkSlice", 2, SBV(64), "slen_") }
func SlCap(s Term) Term  { return ctorArg(s, "mkSlice", 3, SBV(64), "scap") }
func MkSlice(base, off, ln, cp Term) Term {
	return App(SSlice, "mkSlice", base, off, ln, cp)
}

// Iface accessors
func ITag(i Term) Term { return ctorArg(i, "mkI", 0, SRef, "itag") }
func IRef(i Term) Term { return ctorArg(i, "mkI", 1, SRef, "iref") }
func IBV(i Term) Term  { return ctorArg(i, "mkI", 2, SBV(64), "ibv") }
func IStr(i Term) Term { return ctorArg(i, "mkI", 3, SStr, "istr") }
func MkI(tag, ref, bv, str Term) Term {
	return App(SIface, "mkI", tag, ref, bv, str)
}

func StrLen(s Term) Term     { return App(SBV(64), "slen", s) }
func StrAt(s, i Term) Term   { return App(SBV(8), "sat", s, i) }
func BVAdd(a, b Term) Term   { return App(a.Sort, "bvadd", a, b) }
func BVSub(a, b Term) Term   { return App(a.Sort, "bvsub", a, b) }
func BVUlt(a, b Term) Term   { return App(SBool, "bvult", a, b) }
func BVUle(a, b Term) Term   { return App(SBool, "bvule", a, b) }
func BVSlt(a, b Term) Term   { return App(SBool, "bvslt", a, b) }
func BVSle(a, b Term) Term   { return App(SBool, "bvsle", a, b) }
func IntAdd(a, b Term) Term  { return App(SRef, "+", a, b) }
func IntLt(a, b Term) Term   { return App(SBool, "<", a, b) }
func IntLe(a, b Term) Term   { return App(SBool, "<=", a, b) }
func Distinct(a, b Term) Term { return Not(Eq(a, b)) }

// ZeroExt / SignExt / Extract to convert between widths.
func BVConv(t Term, to int, signedSrc bool) Term {
	from := t.Sort.Width()
	switch {
	case from == to:
		return t
	case from > to:
		return Term{fmt.Sprintf("((_ extract %d 0) %s)", to-1, t.S), SBV(to)}
	default:
		op := "zero_extend"
		if signedSrc {
			op = "sign_extend"
		}
		return Term{fmt.Sprintf("((_ %s %d) %s)", op, to-from, t.S), SBV(to)}
	}
}

// ---- Go types -> sorts -----------------------------------------------

func isUnsigned(t types.Type) bool {
	b, ok := t.Underlying().(*types.Basic)
	if !ok {
		return false
	}
	return b.Info()&types.IsUnsigned != 0
}

func basicWidth(b *types.Basic) int {
	switch b.Kind() {
	case types.Int8, types.Uint8:
		return 8
	case types.Int16, types.Uint16:
		return 16
	case types.Int32, types.Uint32:
		return 32
	case types.Int, types.Uint, types.Int64, types.Uint64, types.Uintptr, types.UntypedInt, types.UntypedRune:
		return 64
	}
	return 0
}

// Types that are modelled rather than interpreted structurally.
func modelKind(t types.Type) string {
	n, ok := t.(*types.Named)
	if !ok {
		return ""
	}
	if n.Obj().Pkg() == nil {
		return ""
	}
	full := n.Obj().Pkg().Path() + "." + n.Obj().Name()
	switch full {
	case "sync.Map":
		return "syncmap"
	case "sync.Mutex", "sync.RWMutex", "sync.Once", "sync.WaitGroup":
		return "unit"
	case "bytes.Buffer":
		return "bytesbuf"
	case "time.Time":
		return "opaque64"
	}
	return ""
}

// sortOf gives the SMT sort of a Go type when held in a register or leaf
// heap cell. Struct values have no single sort (they are StructV).
func sortOf(t types.Type) Sort {
	if mk := modelKind(t); mk != "" {
		switch mk {
		case "unit":
			return SUnit
		case "opaque64":
			return SBV(64)
		case "syncmap":
			return "SyncMap" // special: two heap arrays; never a register value
		case "bytesbuf":
			return "BytesBuf"
		}
	}
	switch u := t.Underlying().(type) {
	case *types.Basic:
		switch {
		case u.Info()&types.IsBoolean != 0:
			return SBool
		case u.Info()&types.IsString != 0:
			return SStr
		case u.Info()&types.IsInteger != 0:
			return SBV(basicWidth(u))
		case u.Kind() == types.UnsafePointer:
			return SRef
		case u.Kind() == types.UntypedNil:
			return SRef
		case u.Info()&types.IsFloat != 0:
			return SBV(64) // opaque; float arithmetic unsupported
		}
	case *types.Pointer, *types.Map, *types.Chan, *types.Signature:
		return SRef
	case *types.Slice:
		return SSlice
	case *types.Interface:
		return SIface
	case *types.Struct:
		return "Struct"
	case *types.Array:
		return "ArrayVal"
	case *types.Tuple:
		return "Tuple"
	}
	panic(fmt.Sprintf("sortOf: unsupported type %s (%T)", t, t.Underlying()))
}

func zeroOf(s Sort) Term {
	switch {
	case s == SBool:
		return TFalse
	case s == SRef:
		return TNilR
	case s == SStr:
		return Term{"str_empty", SStr}
	case s == SIface:
		return TNilI
	case s == SSlice:
		return TNilS
	case s == SUnit:
		return TUnit
	case s.IsBV():
		return BVLit(0, s.Width())
	}
	panic("zeroOf: " + string(s))
}

func constTerm(c constant.Value, t types.Type, ex *Exec) Term {
	s := sortOf(t)
	switch {
	case s == SBool:
		if constant.BoolVal(c) {
			return TTrue
		}
		return TFalse
	case s.IsBV():
		if c.Kind() == constant.Float {
			return BVLit(0, s.Width())
		}
		bi, ok := new(big.Int).SetString(c.ExactString(), 10)
		if !ok {
			panic("const: " + c.ExactString())
		}
		return BVLitBig(bi, s.Width())
	case s == SStr:
		return ex.g.strLit(constant.StringVal(c))
	}
	panic(fmt.Sprintf("constTerm: %v : %s", c, t))
}

// ---- type tags ---------------------------------------------------------

type tagTable struct {
	mu     sync.Mutex // functions are executed concurrently
	byName map[string]int
	types  map[int]types.Type
}

func newTagTable() *tagTable {
	return &tagTable{byName: map[string]int{}, types: map[int]types.Type{}}
}

func typeKey(t types.Type) string { return types.TypeString(t, nil) }

func (tt *tagTable) tag(t types.Type) int {
	k := typeKey(t)
	tt.mu.Lock()
	defer tt.mu.Unlock()
	if n, ok := tt.byName[k]; ok {
		return n
	}
	n := len(tt.byName) + 1
	tt.byName[k] = n
	tt.types[n] = t
	return n
}

func (tt *tagTable) sortedNames() []string {
	var ns []string
	for k := range tt.byName {
		ns = append(ns, k)
	}
	sort.Strings(ns)
	return ns
}

func sanitize(s string) string {
	var b strings.Builder
	for _, c := range s {
		switch {
		case c >= 'a' && c <= 'z', c >= 'A' && c <= 'Z', c >= '0' && c <= '9', c == '_', c == '.':
			b.WriteRune(c)
		case c == '/':
			b.WriteRune('.')
		case c == '*':
			b.WriteString("P.")
		case c == '#':
			b.WriteRune('#')
		case c == '$':
			b.WriteRune('$')
		default:
			b.WriteRune('_')
		}
	}
	return b.String()
}

var literalRe = regexp.MustCompile(`^(\d+|\(- \d+\)|\(_ bv\d+ \d+\)|#x[0-9a-fA-F]+|#b[01]+)$`)

// isLiteral: a numeral or bit-vector constant in the canonical form the term
// constructors produce (so two different strings denote different values).
func isLiteral(s string) bool { return literalRe.MatchString(s) }
