package main

// Forward symbolic execution of go/ssa functions, path by path, producing
// obligations (DESIGN.md section 3).

import (
	"go/ast"
	"fmt"
	"go/token"
	"go/types"
	"os"
	"sort"
	"strings"
	"sync"

	"golang.org/x/tools/go/ssa"
)

const repoPrefix = "github.com/energomonitor/bisquitt"

type G struct {
	prog      *ssa.Program
	fset      *token.FileSet
	pkgs      map[string]*ssa.Package
	contracts map[string]*Contract // key: funcKey
	specs     map[string]*SpecFn
	preds     map[string]*SpecFn
	ghosts    map[string]*GhostField // "pkg.Type.name"
	tags      *tagTable
	mu        sync.Mutex
	strlits   map[string]string
	strOrder  []string
	freshN    int
	fnIDs     map[string]int
	inlineSet map[string]bool
	allTypes  []types.Type // universe for dynamic dispatch
	debug     bool
}

func (g *G) fresh(prefix string) string {
	g.mu.Lock()
	defer g.mu.Unlock()
	g.freshN++
	return fmt.Sprintf("%s!%d", prefix, g.freshN)
}

func (g *G) freshCount() int {
	g.mu.Lock()
	defer g.mu.Unlock()
	return g.freshN
}

func (g *G) negID(key string) int {
	g.mu.Lock()
	defer g.mu.Unlock()
	if n, ok := g.fnIDs[key]; ok {
		return n
	}
	n := len(g.fnIDs) + 1
	g.fnIDs[key] = n
	return n
}

func (g *G) strLit(v string) Term {
	g.mu.Lock()
	defer g.mu.Unlock()
	if v == "" {
		return Term{"str_empty", SStr}
	}
	if n, ok := g.strlits[v]; ok {
		return Term{n, SStr}
	}
	n := fmt.Sprintf("strlit_%d", len(g.strlits))
	g.strlits[v] = n
	g.strOrder = append(g.strOrder, v)
	return Term{n, SStr}
}

// strLitValue: the Go string a literal term stands for.
func (g *G) strLitValue(t Term) (string, bool) {
	g.mu.Lock()
	defer g.mu.Unlock()
	if t.S == "str_empty" {
		return "", true
	}
	for v, n := range g.strlits {
		if n == t.S {
			return v, true
		}
	}
	return "", false
}

// strLitDecls emits declarations and axioms for string literals whose names
// occur in the given text.
func (g *G) strLitDecls(body string) string {
	g.mu.Lock()
	defer g.mu.Unlock()
	var b strings.Builder
	for _, v := range g.strOrder {
		n := g.strlits[v]
		if !strings.Contains(body, n) {
			continue
		}
		// check exact token (strlit_1 vs strlit_10)
		if !containsToken(body, n) {
			continue
		}
		fmt.Fprintf(&b, "(declare-const %s Str)\n", n)
		fmt.Fprintf(&b, "(assert (= (slen %s) (_ bv%d 64)))\n", n, len(v))
		for i := 0; i < len(v); i++ {
			fmt.Fprintf(&b, "(assert (= (sat %s (_ bv%d 64)) (_ bv%d 8)))\n", n, i, v[i])
		}
	}
	return b.String()
}

func containsToken(body, tok string) bool {
	i := 0
	for {
		j := strings.Index(body[i:], tok)
		if j < 0 {
			return false
		}
		end := i + j + len(tok)
		if end >= len(body) || !(body[end] >= '0' && body[end] <= '9') {
			return true
		}
		i = end
	}
}

// funcKey: stable key of a function: "<shortpkg>.<RelString>", e.g.
// "packets.(*Header).Unpack", "packets1.ReadPacket", "gateway.newConnectTransaction$1".
func funcKey(fn *ssa.Function) string {
	pkg := fn.Package()
	if pkg == nil {
		if fn.Parent() != nil {
			pkg = fn.Parent().Package()
		}
	}
	if pkg == nil {
		// synthetic wrappers etc.
		return fn.String()
	}
	return shortPkg(pkg.Pkg.Path()) + "." + fn.RelString(pkg.Pkg)
}

func isRepoFn(fn *ssa.Function) bool {
	p := fn.Package()
	if p == nil && fn.Parent() != nil {
		p = fn.Parent().Package()
	}
	if p == nil {
		// wrapper: look at receiver type
		if fn.Signature.Recv() != nil {
			return strings.Contains(fn.Signature.Recv().Type().String(), repoPrefix)
		}
		return false
	}
	return strings.HasPrefix(p.Pkg.Path(), repoPrefix)
}

// Exec: one function under verification.
type Exec struct {
	g        *G
	fn       *ssa.Function
	key      string
	con      *Contract
	obls     []*Obligation
	paths    int
	maxPaths int
	errs     []string
	ordinals map[ssa.Instruction]int // stable per-kind ordinal of instructions
	ordKind  map[ssa.Instruction]string
	work     []*State
	retCount int
	covers   map[string]bool
	callOrd  map[ssa.Instruction]string // call-site names "callee.N"
	loops    map[*ssa.BasicBlock]*loopInfo
	usedTrusted map[string]bool
	usedAssume  map[string]bool
	// dry run (loop modification discovery)
	dry      bool
	dryYield bool // the dry run of the loop body passed a blocking point
	dryNested bool // the dry run of the loop body reached a nested loop
	stopRegs  []map[string]ssa.Value // per path that reached the stop site: the SSA value each local denotes there
	dryLoop  *loopInfo
	dryMods  map[string]bool
	dryGMods map[string]bool
	dryBase  map[string]Term
	dryGhost map[string]Term
	drySorts map[string]Sort
	dryIdx   map[string][]string
	dryWhole map[string]bool
	dryStart int
	lastDryIdx   map[string][]string
	lastDryWhole map[string]bool
}

type execAbort struct{ msg string }

func (ex *Exec) fail(format string, args ...interface{}) {
	panic(execAbort{fmt.Sprintf(format, args...)})
}

func (ex *Exec) pos(p token.Pos) string {
	if !p.IsValid() {
		return ""
	}
	pp := ex.g.fset.Position(p)
	return fmt.Sprintf("%s:%d", strings.TrimPrefix(pp.Filename, repoRoot+"/"), pp.Line)
}

// ---- obligations ---------------------------------------------------------

func (ex *Exec) oblige(s *State, name, kind string, pos token.Pos, tags []string, goal Term, note string) {
	if ex.dry {
		s.assume(goal)
		return
	}
	if goal.S == "true" {
		// trivially true obligations are still counted (discharged syntactically)
		ex.obls = append(ex.obls, &Obligation{Name: name, Kind: kind, Fn: ex.key, Pos: ex.pos(pos), Tags: tags,
			Goal: goal, Result: "unsat", Solver: "syntactic", Note: note})
		return
	}
	o := &Obligation{
		Name: name, Kind: kind, Fn: ex.key, Pos: ex.pos(pos), Tags: tags,
		Decls:   append([]string(nil), s.Decls...),
		Asserts: append([]Term(nil), s.Asserts...),
		Goal:    goal,
		Note:    note,
		Inputs:  map[string]Val{},
	}
	for _, p := range ex.fn.Params {
		o.Inputs[p.Name()] = s.Stack[0].Regs[p]
	}
	ex.obls = append(ex.obls, o)
	// continue under the assumption that the obligation holds
	s.assume(goal)
}

func (ex *Exec) cover(s *State, name string, tags []string, pos token.Pos) {
	if ex.dry {
		return
	}
	o := &Obligation{
		Name: name, Kind: "cover", Fn: ex.key, Pos: ex.pos(pos), Tags: tags,
		Decls:   append([]string(nil), s.Decls...),
		Asserts: append([]Term(nil), s.Asserts...),
		Goal:    TFalse, // query = asserts; must be SAT
		Cover:   true,
	}
	ex.obls = append(ex.obls, o)
}

// panicTags: tags for run-time panic obligations of the current function.
func (ex *Exec) panicTags() []string {
	if ex.con != nil {
		return ex.con.NoPanicTags
	}
	return nil
}

func (ex *Exec) wantPanicChecks() bool {
	return ex.con != nil && ex.con.NoPanic
}

func (ex *Exec) panicObl(s *State, instr ssa.Instruction, kind string, goal Term) {
	// only the function under verification's own instructions get named
	// obligations; inlined callees get theirs under the caller's name with
	// a path suffix.
	fr := s.top()
	name := ""
	if fr.IsRoot {
		name = fmt.Sprintf("%s#%s.%d", ex.key, kind, ex.ordinal(instr, kind))
	} else {
		name = fmt.Sprintf("%s#%s.in.%s.%d", ex.key, kind, funcKey(fr.Fn), ex.ordinal(instr, kind))
	}
	if !ex.wantPanicChecks() {
		// not a nopanic function: the condition is assumed (documented:
		// panic freedom is only claimed for nopanic functions)
		s.assume(goal)
		return
	}
	ex.oblige(s, name, kind, instr.Pos(), ex.panicTags(), goal, "")
}

// ordinal: index of instr among the instructions of its function that can
// raise an obligation of this kind, in block/instruction order.
func (ex *Exec) ordinal(instr ssa.Instruction, kind string) int {
	if n, ok := ex.ordinals[instr]; ok && ex.ordKind[instr] == kind {
		return n
	}
	fn := instr.Parent()
	n := 0
	for _, b := range fn.Blocks {
		for _, in := range b.Instrs {
			if in == instr {
				ex.ordinals[instr] = n
				ex.ordKind[instr] = kind
				return n
			}
			if sameOblKind(in, instr) {
				n++
			}
		}
	}
	return -1
}

func sameOblKind(a, b ssa.Instruction) bool {
	return fmt.Sprintf("%T", a) == fmt.Sprintf("%T", b)
}

// ---- running -------------------------------------------------------------

func (ex *Exec) run() (err error) {
	defer func() {
		if r := recover(); r != nil {
			if a, ok := r.(execAbort); ok {
				err = fmt.Errorf("%s: %s", ex.key, a.msg)
				return
			}
			panic(r)
		}
	}()
	if len(ex.fn.Blocks) == 0 {
		return fmt.Errorf("%s: no body", ex.key)
	}
	ex.computeLoops(ex.fn)
	s0 := ex.initialState()
	ex.work = []*State{s0}
	for len(ex.work) > 0 {
		s := ex.work[len(ex.work)-1]
		ex.work = ex.work[:len(ex.work)-1]
		ex.runState(s)
		if ex.paths > ex.maxPaths {
			ex.fail("path limit %d exceeded (outside reach)", ex.maxPaths)
		}
	}
	ex.checkFlows()
	return nil
}

// checkFlows decides the `flows T.F <- x into f` clauses on the SSA of the
// function (exact: SSA registers are not aliased): there is exactly one
// struct literal of type T, its field F is stored exactly once, from the SSA
// value the local x denotes on every path that reached the stop site, and the
// literal's address is an argument of the only call of f in the function.
func (ex *Exec) checkFlows() {
	if ex.con == nil || len(ex.con.Flows) == 0 {
		return
	}
	if ex.con.StopAt != "" && len(ex.stopRegs) == 0 {
		ex.fail("stop site %s was never reached", ex.con.StopAt)
	}
	for _, fl := range ex.con.Flows {
		name := fmt.Sprintf("%s#flow.%s.%s", ex.key, fl.Type, fl.Field)
		ok, why := ex.flowHolds(fl)
		o := &Obligation{Name: name, Kind: "flow", Fn: ex.key, Tags: fl.Tags, Pos: ex.pos(ex.fn.Pos()),
			Goal: TTrue, Solver: "syntactic", Result: "unsat", Note: fmt.Sprintf("%s.%s <- %s into %s", fl.Type, fl.Field, fl.Local, fl.Into)}
		if !ok {
			o.Goal, o.Result, o.Raw = TFalse, "sat", why
			o.Note += ": " + why
		}
		ex.obls = append(ex.obls, o)
	}
}

func (ex *Exec) flowHolds(fl Flow) (bool, string) {
	var allocs []*ssa.Alloc
	var intoCalls []ssa.CallInstruction
	for _, b := range ex.fn.Blocks {
		for _, in := range b.Instrs {
			if a, ok := in.(*ssa.Alloc); ok {
				if n, ok := a.Type().(*types.Pointer).Elem().(*types.Named); ok && n.Obj().Name() == fl.Type {
					allocs = append(allocs, a)
				}
			}
			if ci, ok := in.(ssa.CallInstruction); ok && calleeName(ci.Common()) == fl.Into {
				intoCalls = append(intoCalls, ci)
			}
		}
	}
	if len(allocs) != 1 {
		return false, fmt.Sprintf("%d struct literals of type %s (expected one)", len(allocs), fl.Type)
	}
	if len(intoCalls) != 1 {
		return false, fmt.Sprintf("%d calls of %s (expected one)", len(intoCalls), fl.Into)
	}
	a := allocs[0]
	passed := false
	for _, arg := range intoCalls[0].Common().Args {
		if arg == ssa.Value(a) {
			passed = true
		}
	}
	if !passed {
		return false, fmt.Sprintf("the %s literal is not an argument of %s", fl.Type, fl.Into)
	}
	st := a.Type().(*types.Pointer).Elem().Underlying().(*types.Struct)
	var stores []*ssa.Store
	for _, ref := range *a.Referrers() {
		fa, ok := ref.(*ssa.FieldAddr)
		if !ok {
			if _, isCall := ref.(ssa.CallInstruction); isCall {
				continue
			}
			if _, isDbg := ref.(*ssa.DebugRef); isDbg {
				continue
			}
			return false, fmt.Sprintf("the %s literal escapes through %T", fl.Type, ref)
		}
		if st.Field(fa.Field).Name() != fl.Field {
			continue
		}
		for _, r2 := range *fa.Referrers() {
			if sto, ok := r2.(*ssa.Store); ok && sto.Addr == ssa.Value(fa) {
				stores = append(stores, sto)
			}
		}
	}
	if len(stores) != 1 {
		return false, fmt.Sprintf("%d stores to %s.%s (expected one)", len(stores), fl.Type, fl.Field)
	}
	for _, regs := range ex.stopRegs {
		v, ok := regs[fl.Local]
		if !ok {
			return false, fmt.Sprintf("local %s is not defined at the stop site on some path", fl.Local)
		}
		if v != stores[0].Val {
			return false, fmt.Sprintf("%s.%s is initialised from %s, not from the value of %s checked at the stop site", fl.Type, fl.Field, stores[0].Val.Name(), fl.Local)
		}
	}
	return true, ""
}

func (ex *Exec) runState(s *State) {
	for !s.Dead {
		fr := s.top()
		if fr.Idx >= len(fr.Block.Instrs) {
			ex.fail("fell off block %d in %s", fr.Block.Index, fr.Fn)
		}
		instr := fr.Block.Instrs[fr.Idx]
		succ := ex.step(s, instr)
		if succ == nil {
			continue
		}
		// forked: push all
		for i := len(succ) - 1; i >= 0; i-- {
			ex.work = append(ex.work, succ[i])
		}
		return
	}
	ex.paths++
}

func (ex *Exec) jump(s *State, to *ssa.BasicBlock) {
	fr := s.top()
	from := fr.Block
	if ex.dry && fr.IsRoot && !ex.dryLoop.Blocks[to] {
		s.Dead = true
		return
	}
	// loop handling
	if li := ex.loops[to]; li != nil && fr.IsRoot {
		if fr.LoopSeen[to] {
			// back edge: assert invariant, path ends
			fr.Prev = from
			ex.loopBack(s, li, from)
			s.Dead = true
			return
		}
		// first entry
		fr.LoopSeen[to] = true
		ex.loopEnter(s, li, from)
		fr.Prev = from
		fr.Block = to
		fr.Idx = countPhis(to)
		return
	} else if !fr.IsRoot && (li != nil || to.Dominates(from)) {
		// a back edge inside a function that is verified inside its caller:
		// the loop has no invariant to cut it with (fail closed, never unroll)
		ex.fail("loop in inlined function %s: it needs a contract with a loop invariant", fr.Fn)
	}
	fr.Prev = from
	fr.Block = to
	fr.Idx = 0
}

// step executes one instruction. Returns nil if s continues (mutated in
// place), or a list of successor states if the path forked.
func (ex *Exec) step(s *State, instr ssa.Instruction) []*State {
	fr := s.top()
	if ex.g.debug {
		fmt.Fprintf(os.Stderr, "    [%s b%d] %s\n", fr.Fn.Name(), fr.Block.Index, instr)
	}
	switch in := instr.(type) {
	case *ssa.DebugRef:
		// remember which value a source-level local denotes (loop invariants
		// may name locals that are not loop-carried, e.g. range keys)
		if id, ok := in.Expr.(*ast.Ident); ok && !in.IsAddr && fr.IsRoot {
			if v, ok := fr.Regs[in.X]; ok {
				if fr.Names == nil {
					fr.Names = map[string]namedVal{}
				}
				fr.Names[id.Name] = namedVal{v, in.X.Type(), in.X}
			}
		}
		fr.Idx++
	case *ssa.Phi:
		// find edge index
		idx := -1
		for i, p := range fr.Block.Preds {
			if p == fr.Prev {
				idx = i
			}
		}
		if idx < 0 {
			ex.fail("phi: no pred")
		}
		// all phis of a block read their operands simultaneously
		vals := map[*ssa.Phi]Val{}
		j := fr.Idx
		for ; j < len(fr.Block.Instrs); j++ {
			p, ok := fr.Block.Instrs[j].(*ssa.Phi)
			if !ok {
				break
			}
			vals[p] = ex.val(s, p.Edges[idx])
		}
		for p, v := range vals {
			if p.Comment != "" && fr.IsRoot {
				// from here on the local denotes the merged value
				if fr.Names == nil {
					fr.Names = map[string]namedVal{}
				}
				fr.Names[p.Comment] = namedVal{v, p.Type(), p}
			}
			fr.Regs[p] = v
		}
		fr.Idx = j
	case *ssa.If:
		c := ex.scalar(s, in.Cond)
		thenB, elseB := fr.Block.Succs[0], fr.Block.Succs[1]
		if c.S == "true" {
			ex.jump(s, thenB)
			return nil
		}
		if c.S == "false" {
			ex.jump(s, elseB)
			return nil
		}
		s2 := s.clone()
		s.assume(c)
		s.Path = append(s.Path, fmt.Sprintf("b%d:T", fr.Block.Index))
		ex.jump(s, thenB)
		s2.assume(Not(c))
		s2.Path = append(s2.Path, fmt.Sprintf("b%d:F", fr.Block.Index))
		ex.jump(s2, elseB)
		return []*State{s, s2}
	case *ssa.Jump:
		ex.jump(s, fr.Block.Succs[0])
	case *ssa.Return:
		return ex.doReturn(s, in)
	case *ssa.Panic:
		if ex.wantPanicChecks() {
			ex.oblige(s, fmt.Sprintf("%s#panic.%d", ex.key, ex.ordinal(in, "panic")), "panic", in.Pos(), ex.panicTags(), TFalse, "explicit panic must be unreachable")
		}
		s.Dead = true
	case *ssa.RunDefers:
		if len(fr.Defers) == 0 {
			fr.Idx++
			return nil
		}
		d := fr.Defers[len(fr.Defers)-1]
		args := fr.DeferArgs[len(fr.DeferArgs)-1]
		fr.Defers = fr.Defers[:len(fr.Defers)-1]
		fr.DeferArgs = fr.DeferArgs[:len(fr.DeferArgs)-1]
		return ex.doCall(s, d, &d.Call, nil, args, true)
	case *ssa.Defer:
		args := ex.callArgs(s, &in.Call)
		fr.Defers = append(fr.Defers, in)
		fr.DeferArgs = append(fr.DeferArgs, args)
		fr.Idx++
	case *ssa.Go:
		// goroutine spawn: the spawned function is a separate step
		// (DESIGN 3.4(3)); arguments are evaluated, nothing runs.
		ex.callArgs(s, &in.Call)
		ex.usedAssume["A-ATOMIC: goroutine bodies verified as separate steps"] = true
		if mc, ok := in.Call.Value.(*ssa.MakeClosure); ok && len(in.Call.Args) == 0 {
			// `go func() {...}()`: the closure runs as a separate step; if it is
			// under contract its precondition must hold when it is started
			ex.callbackEnabled(s, in, ex.val(s, mc))
		}
		if in.Call.StaticCallee() == nil && !in.Call.IsInvoke() {
			// `go f(...)` on a function value (a callback held in a variable or
			// field): spawning counts as an invocation of f (ghost calls(f)),
			// and a nil f is a crash of the process
			var fn Term
			switch fv := ex.val(s, in.Call.Value).(type) {
			case FuncV:
				fn = fv.Ref
			default:
				fn = ex.asScalar(fv)
			}
			ex.panicObl(s, in, "nilderef", Not(Eq(fn, TNilR)))
			cnt := s.heapCur("|Fn:calls|", SArray(SRef, SBV(64)))
			s.heapSet("|Fn:calls|", Store(cnt, fn, BVAdd(Select(cnt, fn), BVLit(1, 64))))
		}
		fr.Idx++
	case *ssa.Store:
		addr := ex.val(s, in.Addr)
		v := ex.val(s, in.Val)
		ex.store(s, in, addr, v)
		fr.Idx++
	case *ssa.MapUpdate:
		ex.mapUpdate(s, in)
		fr.Idx++
	case *ssa.Send:
		ex.fail("channel send unsupported")
	case *ssa.Call:
		return ex.doCall(s, in, &in.Call, in, nil, false)
	case ssa.Value:
		v := ex.evalValue(s, in.(ssa.Instruction), in)
		if v != nil {
			fr.Regs[in] = v
		}
		fr.Idx++
	default:
		ex.fail("unsupported instruction %T: %s", instr, instr)
	}
	return nil
}

// ---- values ---------------------------------------------------------------

func (ex *Exec) val(s *State, v ssa.Value) Val {
	fr := s.top()
	switch x := v.(type) {
	case *ssa.Const:
		return ex.constVal(x)
	case *ssa.Global:
		return GlobalPtr{x}
	case *ssa.Function:
		return FuncV{Fn: x, Ref: ex.fnRef(x)}
	case *ssa.Builtin:
		ex.fail("builtin as value")
	}
	if r, ok := fr.Regs[v]; ok {
		return r
	}
	ex.fail("unbound value %s (%T) in %s", v.Name(), v, fr.Fn)
	return nil
}

func (ex *Exec) fnRef(fn *ssa.Function) Term {
	// identity of a top-level function value: a negative Ref
	return IntLit(int64(-ex.g.negID("fn:" + funcKey(fn))))
}

func (ex *Exec) constVal(c *ssa.Const) Val {
	t := c.Type()
	if c.Value == nil {
		// zero value
		return ex.zeroVal(t)
	}
	return Scalar{constTerm(c.Value, t, ex)}
}

func (ex *Exec) zeroVal(t types.Type) Val {
	if modelKind(t) == "" {
		switch u := t.Underlying().(type) {
		case *types.Struct:
			sv := StructV{Typ: t}
			for i := 0; i < u.NumFields(); i++ {
				sv.Fields = append(sv.Fields, ex.zeroVal(u.Field(i).Type()))
			}
			return sv
		case *types.Pointer:
			return PtrV{Base: TNilR, Root: u.Elem()}
		case *types.Tuple:
			var tv TupleV
			for i := 0; i < u.Len(); i++ {
				tv = append(tv, ex.zeroVal(u.At(i).Type()))
			}
			return tv
		case *types.Array:
			ex.fail("array value unsupported: %s", t)
		}
	}
	so := sortOf(t)
	if so == "SyncMap" || so == "BytesBuf" {
		return ModelZero{so}
	}
	return Scalar{zeroOf(so)}
}

// ModelZero: zero value of a modelled struct type (sync.Map, bytes.Buffer).
type ModelZero struct{ Kind Sort }

func (ex *Exec) scalar(s *State, v ssa.Value) Term {
	return ex.asScalar(ex.val(s, v))
}

func (ex *Exec) asScalar(x Val) Term {
	switch y := x.(type) {
	case Scalar:
		return y.T
	case PtrV:
		if len(y.Path) != 0 {
			ex.fail("interior pointer used as scalar")
		}
		return y.Base
	case FuncV:
		return y.Ref
	}
	ex.fail("not a scalar: %T %v", x, x)
	return Term{}
}

// fresh symbolic value of a Go type
func (ex *Exec) freshVal(s *State, t types.Type, prefix string) Val {
	if modelKind(t) == "" {
		switch u := t.Underlying().(type) {
		case *types.Struct:
			sv := StructV{Typ: t}
			for i := 0; i < u.NumFields(); i++ {
				sv.Fields = append(sv.Fields, ex.freshVal(s, u.Field(i).Type(), prefix+"."+u.Field(i).Name()))
			}
			return sv
		case *types.Pointer:
			r := s.declare(ex.g.fresh(prefix), SRef)
			ex.assumeRefOK(s, r)
			return PtrV{Base: r, Root: u.Elem()}
		case *types.Tuple:
			var tv TupleV
			for i := 0; i < u.Len(); i++ {
				tv = append(tv, ex.freshVal(s, u.At(i).Type(), fmt.Sprintf("%s.%d", prefix, i)))
			}
			return tv
		}
	}
	so := sortOf(t)
	if so == "SyncMap" || so == "BytesBuf" {
		ex.fail("fresh value of model type %s", t)
	}
	c := s.declare(ex.g.fresh(prefix), so)
	ex.assumeWF(s, c, t)
	return Scalar{c}
}

// allocTerm: the allocation frontier: every Ref existing so far is < frontier.
func (ex *Exec) allocFrontier(s *State) Term {
	if s.Alloc == 0 {
		return Term{"A0", SRef}
	}
	return Term{fmt.Sprintf("(+ A0 %d)", s.Alloc), SRef}
}

func (ex *Exec) newRef(s *State) Term {
	r := ex.allocFrontier(s)
	s.Alloc++
	return r
}

func (ex *Exec) assumeRefOK(s *State, r Term) {
	s.assume(And(IntLe(IntLit(0), r), IntLt(r, ex.allocFrontier(s))))
}

// assumeWF: type invariants of symbolic inputs (A-SLICE etc.)
func (ex *Exec) assumeWF(s *State, c Term, t types.Type) {
	switch c.Sort {
	case SSlice:
		lim := BVLit(1<<40, 64)
		s.assume(And(
			BVSle(BVLit(0, 64), SlLen(c)), BVSle(SlLen(c), SlCap(c)),
			BVUle(SlCap(c), lim), BVUle(SlOff(c), lim),
			IntLe(IntLit(0), SlBase(c)), IntLt(SlBase(c), ex.allocFrontier(s)),
			Implies(Eq(SlBase(c), TNilR), Eq(SlCap(c), BVLit(0, 64))),
		))
	case SStr:
		s.assume(BVUle(StrLen(c), BVLit(1<<40, 64)))
	case SRef:
		if t != nil {
			if _, isFn := t.Underlying().(*types.Signature); isFn {
				// function values: top-level functions have negative identities
				s.assume(IntLt(c, ex.allocFrontier(s)))
				return
			}
		}
		ex.assumeRefOK(s, c)
	case SIface:
		// interface values are canonical (MakeInterface builds them so): a
		// string payload has no ref/bits, an integer payload no ref/string
		empty := Term{"str_empty", SStr}
		for _, bk := range []types.BasicKind{types.String, types.Uint8, types.Uint16, types.Uint32, types.Uint64, types.Int, types.Int64, types.Uint, types.Bool} {
			bt := types.Typ[bk]
			tag := Eq(ITag(c), IntLit(int64(ex.g.tags.tag(bt))))
			if bk == types.String {
				s.assume(Implies(tag, And(Eq(IRef(c), TNilR), Eq(IBV(c), BVLit(0, 64)))))
				continue
			}
			w := basicWidth(bt)
			if bk == types.Bool {
				w = 1
			}
			bound := TTrue
			if w < 64 {
				bound = BVUle(IBV(c), BVLit((uint64(1)<<uint(w))-1, 64))
			}
			s.assume(Implies(tag, And(Eq(IRef(c), TNilR), Eq(IStr(c), empty), bound)))
		}
		// payload refs may be negative (package-level sentinels, functions)
		s.assume(And(IntLt(IRef(c), ex.allocFrontier(s)), IntLe(IntLit(0), ITag(c)),
			BVUle(StrLen(IStr(c)), BVLit(1<<40, 64)),
			Implies(Eq(ITag(c), IntLit(0)), Eq(c, TNilI))))
	}
}

// ---- leaves / heap access -----------------------------------------------------

type leaf struct {
	Path []int
	Typ  types.Type
}

func leavesOf(t types.Type) []leaf {
	var out []leaf
	var rec func(t types.Type, path []int)
	rec = func(t types.Type, path []int) {
		if modelKind(t) == "" {
			if st, ok := t.Underlying().(*types.Struct); ok {
				for i := 0; i < st.NumFields(); i++ {
					rec(st.Field(i).Type(), append(append([]int(nil), path...), i))
				}
				return
			}
		}
		out = append(out, leaf{append([]int(nil), path...), t})
	}
	rec(t, nil)
	return out
}

func (ex *Exec) heapArr(s *State, root types.Type, path []int, suffix string, valSort Sort) (string, Term) {
	name := leafHeapName(root, path)
	if suffix != "" {
		name = strings.TrimSuffix(name, "|") + suffix + "|"
	}
	return name, s.heapCur(name, SArray(SRef, valSort))
}

// loadLeaf reads a leaf (non-struct) location.
// guardCheck: lock-coverage obligations (C29): fields listed in a `guarded`
// clause may only be read under the mutex (read or write lock) and written
// under its write lock.
func (ex *Exec) guardCheck(s *State, base Term, root types.Type, path []int, write bool) {
	if ex.con == nil || len(ex.con.Guards) == 0 || len(path) == 0 || ex.dry {
		return
	}
	st, ok := root.Underlying().(*types.Struct)
	if !ok {
		return
	}
	fname := st.Field(path[0]).Name()
	for _, g := range ex.con.Guards {
		hit := false
		for _, f := range g.Fields {
			if f == fname {
				hit = true
			}
		}
		if !hit {
			continue
		}
		mi := -1
		for i := 0; i < st.NumFields(); i++ {
			if st.Field(i).Name() == g.Mutex {
				mi = i
			}
		}
		if mi < 0 {
			ex.fail("guarded: no mutex field %s in %s", g.Mutex, root)
		}
		cur, has := s.Ghost["lock:"+base.S+":"+fmt.Sprint([]int{mi})]
		if !has {
			cur = IntLit(0)
		}
		mode := "r"
		goal := Or(Eq(cur, IntLit(1)), Eq(cur, IntLit(2)))
		if write {
			mode = "w"
			goal = Eq(cur, IntLit(1))
		}
		ex.oblige(s, fmt.Sprintf("%s#lock.%s.%s", ex.key, fname, mode), "lock", ex.fn.Pos(), g.Tags, goal,
			"access to "+fname+" must hold "+g.Mutex)
		// remember that a guarded field has been accessed in this call (see lockEvent: one critical section)
		s.Ghost["touched:"+base.S+":"+fmt.Sprint([]int{mi})] = IntLit(1)
	}
}

func (ex *Exec) loadLeaf(s *State, base Term, root types.Type, path []int, lt types.Type) Val {
	ex.guardCheck(s, base, root, path, false)
	so := sortOf(lt)
	switch so {
	case "SyncMap", "BytesBuf":
		// value copy of a model object: unsupported except zero-init
		ex.fail("load of model-typed value %s", lt)
	}
	_, arr := ex.heapArr(s, root, path, "", so)
	v := Select(arr, base)
	if so == SRef || so == SSlice || so == SIface || so == SStr {
		// well-formed heap assumption (no forged references)
		ex.assumeWF(s, v, lt)
	}
	if pt, ok := lt.Underlying().(*types.Pointer); ok {
		return PtrV{Base: v, Root: pt.Elem()}
	}
	return Scalar{v}
}

func (ex *Exec) storeLeaf(s *State, base Term, root types.Type, path []int, lt types.Type, v Val) {
	if !(strings.HasPrefix(base.S, "(+ A0 ") || base.S == "A0") {
		ex.guardCheck(s, base, root, path, true)
	}
	so := sortOf(lt)
	switch so {
	case "SyncMap":
		if _, ok := v.(ModelZero); !ok {
			ex.fail("store of sync.Map value")
		}
		n1, dom := ex.heapArr(s, root, path, "#dom", SArray(SIface, SBool))
		s.heapSet(n1, Store(dom, base, Term{"((as const (Array Iface Bool)) false)", SArray(SIface, SBool)}))
		return
	case "BytesBuf":
		if _, ok := v.(ModelZero); !ok {
			ex.fail("store of bytes.Buffer value")
		}
		if len(path) != 0 {
			ex.fail("bytes.Buffer embedded in a struct is not modelled")
		}
		ex.bufSet(s, base, ex.newRef(s), BVLit(0, 64), BVLit(0, 64))
		return
	}
	name, arr := ex.heapArr(s, root, path, "", so)
	s.heapSet(name, Store(arr, base, ex.asScalar(v)))
}

func (ex *Exec) loadAt(s *State, base Term, root types.Type, path []int) Val {
	t := PtrV{Base: base, Root: root, Path: path}.elemType()
	if modelKind(t) == "" {
		if st, ok := t.Underlying().(*types.Struct); ok {
			sv := StructV{Typ: t}
			for i := 0; i < st.NumFields(); i++ {
				sv.Fields = append(sv.Fields, ex.loadAt(s, base, root, append(append([]int(nil), path...), i)))
			}
			return sv
		}
	}
	return ex.loadLeaf(s, base, root, path, t)
}

func (ex *Exec) storeAt(s *State, base Term, root types.Type, path []int, v Val) {
	t := PtrV{Base: base, Root: root, Path: path}.elemType()
	if modelKind(t) == "" {
		if st, ok := t.Underlying().(*types.Struct); ok {
			sv, ok := v.(StructV)
			if !ok {
				ex.fail("store struct: got %T", v)
			}
			for i := 0; i < st.NumFields(); i++ {
				ex.storeAt(s, base, root, append(append([]int(nil), path...), i), sv.Fields[i])
			}
			return
		}
	}
	ex.storeLeaf(s, base, root, path, t, v)
}

func (ex *Exec) memArr(s *State, elem types.Type) (string, Term, Sort) {
	es := sortOf(elem)
	if es == "Struct" || es == "ArrayVal" {
		ex.fail("memory of struct/array elements unsupported: %s", elem)
	}
	name := memName(es)
	return name, s.heapCur(name, SArray(SRef, SArray(SBV(64), es))), es
}

func (ex *Exec) load(s *State, instr ssa.Instruction, addr Val) Val {
	switch a := addr.(type) {
	case PtrV:
		ex.nilCheck(s, instr, a.Base)
		if arr, ok := a.elemType().Underlying().(*types.Array); ok {
			_ = arr
			ex.fail("load of array value")
		}
		return ex.loadAt(s, a.Base, a.Root, a.Path)
	case ElemPtr:
		_, m, es := ex.memArr(s, a.Elem)
		v := Select(Select(m, a.Base), a.Idx)
		if es == SRef || es == SSlice || es == SIface || es == SStr {
			ex.assumeWF(s, v, a.Elem)
		}
		if pt, ok := a.Elem.Underlying().(*types.Pointer); ok {
			return PtrV{Base: v, Root: pt.Elem()}
		}
		return Scalar{v}
	case GlobalPtr:
		return ex.loadGlobal(s, a.G)
	}
	ex.fail("load from %T", addr)
	return nil
}

func (ex *Exec) store(s *State, instr ssa.Instruction, addr Val, v Val) {
	switch a := addr.(type) {
	case PtrV:
		ex.nilCheck(s, instr, a.Base)
		ex.storeAt(s, a.Base, a.Root, a.Path, v)
	case ElemPtr:
		name, m, _ := ex.memArr(s, a.Elem)
		inner := Select(m, a.Base)
		s.heapSet(name, Store(m, a.Base, Store(inner, a.Idx, ex.asScalar(v))))
	case GlobalPtr:
		ex.fail("store to global %s", a.G.Name())
	default:
		ex.fail("store to %T", addr)
	}
}

func (ex *Exec) memWriteCheck(s *State, instr ssa.Instruction, base Term) {
	fresh := IntLe(Term{"A0", SRef}, base)
	if fresh.S == "true" {
		return
	}
	if strings.HasPrefix(base.S, "(+ A0 ") || base.S == "A0" {
		return
	}
	if ex.con != nil && ex.con.MemWrites {
		return
	}
	ex.oblige(s, fmt.Sprintf("%s#memframe.%d", ex.key, ex.ordinal(instr, "memframe")), "memframe", instr.Pos(), ex.panicTags(), fresh,
		"element store must target memory allocated by this call")
}

func (ex *Exec) nilCheck(s *State, instr ssa.Instruction, base Term) {
	if strings.HasPrefix(base.S, "(+ A0 ") || base.S == "A0" {
		return
	}
	ex.panicObl(s, instr, "nilderef", Not(Eq(base, TNilR)))
}

func (ex *Exec) loadGlobal(s *State, g *ssa.Global) Val {
	t := g.Type().(*types.Pointer).Elem()
	name := "|G:" + shortPkg(g.Pkg.Pkg.Path()) + "." + g.Name() + "|"
	so := sortOf(t)
	if so == "Struct" {
		if st := t.Underlying().(*types.Struct); st.NumFields() == 0 {
			return StructV{Typ: t}
		}
		ex.fail("global struct %s", g.Name())
	}
	c, ok := s.Ghost[name]
	if !ok {
		c = s.declare(name, so)
		s.Ghost[name] = c
		ex.assumeWF(s, c, t)
		if so == SIface && types.Identical(t, types.Universe.Lookup("error").Type()) {
			// package-level sentinel errors: non-nil, pairwise distinct
			// (identity = a per-global negative ref), never reassigned
			id := IntLit(int64(-ex.g.negID("global:" + name)))
			s.assume(And(Not(Eq(ITag(c), IntLit(0))), Eq(IRef(c), id)))
			ex.usedAssume["A-SENTINEL: package-level error variables are non-nil, distinct and never reassigned"] = true
		}
	}
	if pt, ok := t.Underlying().(*types.Pointer); ok {
		return PtrV{Base: c, Root: pt.Elem()}
	}
	return Scalar{c}
}

// ---- instruction evaluation --------------------------------------------------

func (ex *Exec) evalValue(s *State, instr ssa.Instruction, v ssa.Value) Val {
	switch in := v.(type) {
	case *ssa.Alloc:
		return ex.doAlloc(s, in.Type().(*types.Pointer).Elem())
	case *ssa.FieldAddr:
		p, ok := ex.val(s, in.X).(PtrV)
		if !ok {
			ex.fail("FieldAddr on %T", ex.val(s, in.X))
		}
		ex.nilCheck(s, in, p.Base)
		return PtrV{Base: p.Base, Root: p.Root, Path: append(append([]int(nil), p.Path...), in.Field)}
	case *ssa.Field:
		sv, ok := ex.val(s, in.X).(StructV)
		if !ok {
			ex.fail("Field on %T", ex.val(s, in.X))
		}
		return sv.Fields[in.Field]
	case *ssa.IndexAddr:
		return ex.doIndexAddr(s, in)
	case *ssa.Index:
		x := ex.val(s, in.X)
		idx := ex.idx64(s, in.Index)
		if sc, ok := x.(Scalar); ok && sc.T.Sort == SStr {
			ex.panicObl(s, in, "index", And(BVSle(BVLit(0, 64), idx), BVSlt(idx, StrLen(sc.T))))
			return Scalar{StrAt(sc.T, idx)}
		}
		ex.fail("Index on %T", x)
	case *ssa.UnOp:
		return ex.doUnOp(s, in)
	case *ssa.BinOp:
		return ex.doBinOp(s, in)
	case *ssa.Convert:
		return ex.doConvert(s, in)
	case *ssa.ChangeType:
		x := ex.val(s, in.X)
		if p, ok := x.(PtrV); ok {
			if pt, ok := in.Type().Underlying().(*types.Pointer); ok {
				return PtrV{Base: p.Base, Root: pt.Elem(), Path: p.Path}
			}
		}
		if sv, ok := x.(StructV); ok {
			return StructV{Typ: in.Type(), Fields: sv.Fields}
		}
		return x
	case *ssa.ChangeInterface:
		return ex.val(s, in.X)
	case *ssa.MakeInterface:
		xv := ex.val(s, in.X)
		if p, ok := xv.(PtrV); ok && len(p.Path) == 0 {
			// invariant: interface values created in /repo never hold a
			// typed nil pointer (so invoked methods get non-nil receivers)
			ex.panicObl(s, in, "ifacenonnil", Not(Eq(p.Base, TNilR)))
		}
		return Scalar{ex.makeIface(s, in.X.Type(), xv)}
	case *ssa.TypeAssert:
		return ex.doTypeAssert(s, in)
	case *ssa.Extract:
		tv, ok := ex.val(s, in.Tuple).(TupleV)
		if !ok {
			ex.fail("Extract on %T", ex.val(s, in.Tuple))
		}
		return tv[in.Index]
	case *ssa.Slice:
		return ex.doSlice(s, in)
	case *ssa.MakeSlice:
		return ex.doMakeSlice(s, in)
	case *ssa.MakeMap:
		return ex.doMakeMap(s, in)
	case *ssa.Lookup:
		return ex.doLookup(s, in)
	case *ssa.MakeClosure:
		fn := in.Fn.(*ssa.Function)
		var b []Val
		for _, x := range in.Bindings {
			b = append(b, ex.val(s, x))
		}
		return FuncV{Fn: fn, Bindings: b, Ref: ex.newRef(s)}
	case *ssa.MakeChan:
		r := ex.newRef(s)
		arr := s.heapCur("|Chan:closed|", SArray(SRef, SBool))
		s.heapSet("|Chan:closed|", Store(arr, r, TFalse))
		return Scalar{r}
	case *ssa.Range:
		return ex.doRange(s, in)
	case *ssa.Next:
		return ex.doNext(s, in)
	case *ssa.Select:
		return ex.doSelect(s, in)
	}
	ex.fail("unsupported value instruction %T: %s", v, v)
	return nil
}

func closedKey(r Term) string { return "closed:" + r.S }

func (ex *Exec) doAlloc(s *State, t types.Type) Val {
	r := ex.newRef(s)
	switch u := t.Underlying().(type) {
	case *types.Array:
		name, m, es := ex.memArr(s, u.Elem())
		zero := Term{fmt.Sprintf("((as const (Array (_ BitVec 64) %s)) %s)", es, zeroOf(es)), SArray(SBV(64), es)}
		s.heapSet(name, Store(m, r, zero))
		return PtrV{Base: r, Root: t}
	}
	ex.storeAt(s, r, t, nil, ex.zeroVal(t))
	return PtrV{Base: r, Root: t}
}

func (ex *Exec) idx64(s *State, v ssa.Value) Term {
	t := ex.scalar(s, v)
	if !t.Sort.IsBV() {
		ex.fail("index not BV: %s", t.Sort)
	}
	return BVConv(t, 64, !isUnsigned(v.Type()))
}

func (ex *Exec) doIndexAddr(s *State, in *ssa.IndexAddr) Val {
	x := ex.val(s, in.X)
	idx := ex.idx64(s, in.Index)
	switch xt := in.X.Type().Underlying().(type) {
	case *types.Slice:
		sl := ex.asScalar(x)
		ex.panicObl(s, in, "index", And(BVSle(BVLit(0, 64), idx), BVSlt(idx, SlLen(sl))))
		return ElemPtr{Base: SlBase(sl), Idx: BVAdd(SlOff(sl), idx), Elem: xt.Elem()}
	case *types.Pointer:
		arr := xt.Elem().Underlying().(*types.Array)
		p := x.(PtrV)
		if len(p.Path) != 0 {
			ex.fail("IndexAddr on array inside struct")
		}
		ex.nilCheck(s, in, p.Base)
		ex.panicObl(s, in, "index", And(BVSle(BVLit(0, 64), idx), BVSlt(idx, BVLit(uint64(arr.Len()), 64))))
		return ElemPtr{Base: p.Base, Idx: idx, Elem: arr.Elem()}
	}
	ex.fail("IndexAddr on %s", in.X.Type())
	return nil
}

func (ex *Exec) doUnOp(s *State, in *ssa.UnOp) Val {
	switch in.Op {
	case token.MUL:
		return ex.load(s, in, ex.val(s, in.X))
	case token.NOT:
		return Scalar{Not(ex.scalar(s, in.X))}
	case token.SUB:
		x := ex.scalar(s, in.X)
		return Scalar{App(x.Sort, "bvneg", x)}
	case token.XOR:
		x := ex.scalar(s, in.X)
		return Scalar{App(x.Sort, "bvnot", x)}
	case token.ARROW:
		return ex.doRecv(s, in)
	}
	ex.fail("unop %s", in.Op)
	return nil
}

func (ex *Exec) doBinOp(s *State, in *ssa.BinOp) Val {
	xv, yv := ex.val(s, in.X), ex.val(s, in.Y)
	// pointer comparisons
	if px, ok := xv.(PtrV); ok {
		py, ok2 := yv.(PtrV)
		if !ok2 || len(px.Path) != 0 || len(py.Path) != 0 {
			ex.fail("pointer comparison of interior pointers")
		}
		switch in.Op {
		case token.EQL:
			return Scalar{Eq(px.Base, py.Base)}
		case token.NEQ:
			return Scalar{Not(Eq(px.Base, py.Base))}
		}
		ex.fail("pointer binop %s", in.Op)
	}
	x, y := ex.asScalar(xv), ex.asScalar(yv)
	return Scalar{ex.binop(s, in.Op, x, y, in.X.Type(), in.Y.Type(), in)}
}

// binop: Go semantics on SMT terms. xt is the Go type of the left operand
// (determines signedness), yt of the right (for shifts).
func (ex *Exec) binop(s *State, op token.Token, x, y Term, xt, yt types.Type, instr ssa.Instruction) Term {
	switch x.Sort {
	case SBool:
		switch op {
		case token.EQL:
			return Eq(x, y)
		case token.NEQ:
			return Not(Eq(x, y))
		case token.LAND:
			return And(x, y)
		case token.LOR:
			return Or(x, y)
		}
	case SStr:
		switch op {
		case token.EQL:
			return ex.strEq(s, x, y)
		case token.NEQ:
			return Not(ex.strEq(s, x, y))
		case token.ADD:
			return ex.strConcat(s, x, y)
		}
	case SIface, SRef, SSlice:
		switch op {
		case token.EQL:
			return ex.ifaceEq(s, x, y)
		case token.NEQ:
			return Not(ex.ifaceEq(s, x, y))
		}
	}
	if x.Sort.IsBV() {
		uns := isUnsigned(xt)
		if op == token.SHL || op == token.SHR {
			// bring the count to x's width (Go: count is unsigned or
			// checked non-negative; counts >= width give 0 / sign fill,
			// matching SMT-LIB when the count is not truncated)
			w := x.Sort.Width()
			yw := y.Sort.Width()
			var c Term
			if yw <= w {
				c = BVConv(y, w, false)
			} else {
				// saturate
				big := App(SBool, "bvuge", y, BVLit(uint64(w), yw))
				c = Ite(big, BVLit(uint64(w), w), BVConv(y, w, false))
			}
			if !isUnsigned(yt) && instr != nil {
				// negative shift count panics
				ex.panicObl(s, instr, "shift", BVSle(BVLit(0, yw), y))
			}
			if op == token.SHL {
				return App(x.Sort, "bvshl", x, c)
			}
			if uns {
				return App(x.Sort, "bvlshr", x, c)
			}
			return App(x.Sort, "bvashr", x, c)
		}
		if x.Sort != y.Sort {
			ex.fail("binop %s: sorts %s vs %s", op, x.Sort, y.Sort)
		}
		switch op {
		case token.ADD:
			return App(x.Sort, "bvadd", x, y)
		case token.SUB:
			return App(x.Sort, "bvsub", x, y)
		case token.MUL:
			return App(x.Sort, "bvmul", x, y)
		case token.QUO, token.REM:
			if instr != nil {
				ex.panicObl(s, instr, "div", Not(Eq(y, BVLit(0, y.Sort.Width()))))
			}
			o := map[bool]map[token.Token]string{true: {token.QUO: "bvudiv", token.REM: "bvurem"}, false: {token.QUO: "bvsdiv", token.REM: "bvsrem"}}[uns][op]
			return App(x.Sort, o, x, y)
		case token.AND:
			return App(x.Sort, "bvand", x, y)
		case token.OR:
			return App(x.Sort, "bvor", x, y)
		case token.XOR:
			return App(x.Sort, "bvxor", x, y)
		case token.AND_NOT:
			return App(x.Sort, "bvand", x, App(x.Sort, "bvnot", y))
		case token.EQL:
			return Eq(x, y)
		case token.NEQ:
			return Not(Eq(x, y))
		case token.LSS:
			if uns {
				return BVUlt(x, y)
			}
			return BVSlt(x, y)
		case token.LEQ:
			if uns {
				return BVUle(x, y)
			}
			return BVSle(x, y)
		case token.GTR:
			if uns {
				return BVUlt(y, x)
			}
			return BVSlt(y, x)
		case token.GEQ:
			if uns {
				return BVUle(y, x)
			}
			return BVSle(y, x)
		}
	}
	ex.fail("binop %s on %s", op, x.Sort)
	return Term{}
}

func (ex *Exec) ifaceEq(s *State, x, y Term) Term {
	if x.Sort == SIface {
		// interfaces holding strings compare by string content
		e := Eq(x, y)
		return e
	}
	return Eq(x, y)
}

// strEq: equality on Str plus the extensionality witness fact.
func (ex *Exec) strEq(s *State, a, b Term) Term {
	if a.S == b.S {
		return TTrue
	}
	w := s.declare(ex.g.fresh("sw"), SBV(64))
	// a != b  ==>  lengths differ or contents differ at witness w
	s.assume(Or(Eq(a, b), Not(Eq(StrLen(a), StrLen(b))),
		And(BVUlt(w, StrLen(a)), Not(Eq(StrAt(a, w), StrAt(b, w))))))
	return Eq(a, b)
}

func (ex *Exec) strConcat(s *State, a, b Term) Term {
	r := s.declare(ex.g.fresh("cat"), SStr)
	s.assume(Eq(StrLen(r), BVAdd(StrLen(a), StrLen(b))))
	i := ex.g.fresh("i")
	s.assume(Term{fmt.Sprintf("(forall ((%s (_ BitVec 64))) (! (= (sat %s %s) (ite (bvult %s (slen %s)) (sat %s %s) (sat %s (bvsub %s (slen %s))))) :pattern ((sat %s %s))))",
		i, r.S, i, i, a.S, a.S, i, b.S, i, a.S, r.S, i), SBool})
	return r
}

func (ex *Exec) doConvert(s *State, in *ssa.Convert) Val {
	from, to := in.X.Type(), in.Type()
	x := ex.val(s, in.X)
	fs, ts := sortOf(from), sortOf(to)
	switch {
	case fs.IsBV() && ts.IsBV():
		if b, ok := from.Underlying().(*types.Basic); ok && b.Info()&types.IsFloat != 0 {
			return ex.freshVal(s, to, "fconv")
		}
		if b, ok := to.Underlying().(*types.Basic); ok && b.Info()&types.IsFloat != 0 {
			return ex.freshVal(s, to, "fconv")
		}
		return Scalar{BVConv(ex.asScalar(x), ts.Width(), !isUnsigned(from))}
	case fs == SSlice && ts == SStr:
		return Scalar{ex.bytesToStr(s, ex.asScalar(x))}
	case fs == SStr && ts == SSlice:
		return Scalar{ex.strToBytes(s, ex.asScalar(x))}
	case fs == SRef && ts == SRef:
		if p, ok := x.(PtrV); ok {
			if pt, ok := to.Underlying().(*types.Pointer); ok {
				return PtrV{Base: p.Base, Root: pt.Elem(), Path: p.Path}
			}
		}
		return x
	case fs.IsBV() && ts == SStr:
		// string(rune) / string(integer): the UTF-8 encoding of the code
		// point. Exact for 1- and 2-octet encodings; for larger (or invalid)
		// code points only the length (3 or 4 octets) and the lead octet
		// range are stated.
		c := BVConv(ex.asScalar(x), 64, !isUnsigned(from))
		r := s.declare(ex.g.fresh("runestr"), SStr)
		lit := func(v uint64) Term { return BVLit(v, 64) }
		b8 := func(t Term) Term { return BVConv(t, 8, false) }
		one := And(Eq(StrLen(r), lit(1)), Eq(StrAt(r, lit(0)), b8(c)))
		two := And(Eq(StrLen(r), lit(2)),
			Eq(StrAt(r, lit(0)), b8(App(SBV(64), "bvor", lit(0xC0), App(SBV(64), "bvlshr", c, lit(6))))),
			Eq(StrAt(r, lit(1)), b8(App(SBV(64), "bvor", lit(0x80), App(SBV(64), "bvand", c, lit(0x3F))))))
		more := And(Or(Eq(StrLen(r), lit(3)), Eq(StrLen(r), lit(4))), BVUle(BVLit(0xE0, 8), StrAt(r, lit(0))))
		s.assume(Ite(BVUlt(c, lit(0x80)), one, Ite(BVUlt(c, lit(0x800)), two, more)))
		return Scalar{r}
	case fs == ts:
		return x
	}
	ex.fail("convert %s -> %s", from, to)
	return nil
}

// string(b): fresh Str with the content of b
func (ex *Exec) bytesToStr(s *State, b Term) Term {
	r := s.declare(ex.g.fresh("str"), SStr)
	_, m, _ := ex.memArr(s, types.Typ[types.Uint8])
	s.assume(Eq(StrLen(r), SlLen(b)))
	i := ex.g.fresh("i")
	s.assume(Term{fmt.Sprintf("(forall ((%s (_ BitVec 64))) (! (=> (bvult %s %s) (= (sat %s %s) (select (select %s %s) (bvadd %s %s)))) :pattern ((sat %s %s))))",
		i, i, SlLen(b).S, r.S, i, m.S, SlBase(b).S, SlOff(b).S, i, r.S, i), SBool})
	return r
}

// []byte(s): fresh backing store with the content of s
func (ex *Exec) strToBytes(s *State, str Term) Term {
	base := ex.newRef(s)
	name, m, _ := ex.memArr(s, types.Typ[types.Uint8])
	content := s.declare(ex.g.fresh("sb"), SArray(SBV(64), SBV(8)))
	i := ex.g.fresh("i")
	s.assume(Term{fmt.Sprintf("(forall ((%s (_ BitVec 64))) (! (=> (bvult %s %s) (= (select %s %s) (sat %s %s))) :pattern ((select %s %s))))",
		i, i, StrLen(str).S, content.S, i, str.S, i, content.S, i), SBool})
	s.heapSet(name, Store(m, base, content))
	return MkSlice(base, BVLit(0, 64), StrLen(str), StrLen(str))
}

func (ex *Exec) makeIface(s *State, t types.Type, v Val) Term {
	if _, isI := t.Underlying().(*types.Interface); isI {
		return ex.asScalar(v)
	}
	tag := IntLit(int64(ex.g.tags.tag(t)))
	zero64 := BVLit(0, 64)
	empty := Term{"str_empty", SStr}
	switch x := v.(type) {
	case PtrV:
		if len(x.Path) != 0 {
			ex.fail("interior pointer into interface")
		}
		return MkI(tag, x.Base, zero64, empty)
	case FuncV:
		return MkI(tag, x.Ref, zero64, empty)
	case Scalar:
		switch {
		case x.T.Sort == SRef:
			return MkI(tag, x.T, zero64, empty)
		case x.T.Sort.IsBV():
			return MkI(tag, TNilR, BVConv(x.T, 64, false), empty)
		case x.T.Sort == SBool:
			return MkI(tag, TNilR, Ite(x.T, BVLit(1, 64), zero64), empty)
		case x.T.Sort == SStr:
			return MkI(tag, TNilR, zero64, x.T)
		}
	}
	// boxed (struct values, slices): opaque fresh identity
	r := ex.newRef(s)
	return MkI(tag, r, zero64, empty)
}

// unbox the payload of interface i as Go type t
func (ex *Exec) ifacePayload(s *State, i Term, t types.Type) Val {
	if pt, ok := t.Underlying().(*types.Pointer); ok {
		return PtrV{Base: IRef(i), Root: pt.Elem()}
	}
	so := sortOf(t)
	switch {
	case so == SRef:
		return Scalar{IRef(i)}
	case so.IsBV():
		return Scalar{BVConv(IBV(i), so.Width(), false)}
	case so == SBool:
		return Scalar{Not(Eq(IBV(i), BVLit(0, 64)))}
	case so == SStr:
		return Scalar{IStr(i)}
	}
	// boxed: fresh
	return ex.freshVal(s, t, "unbox")
}

func (ex *Exec) implementers(iface *types.Interface) []types.Type {
	var out []types.Type
	for _, t := range ex.g.allTypes {
		if types.Implements(t, iface) {
			out = append(out, t)
		}
	}
	return out
}

func (ex *Exec) hasTypeCond(i Term, t types.Type) Term {
	if it, ok := t.Underlying().(*types.Interface); ok {
		if it.NumMethods() == 0 {
			return Not(Eq(ITag(i), IntLit(0)))
		}
		var alts []Term
		for _, c := range ex.implementers(it) {
			alts = append(alts, Eq(ITag(i), IntLit(int64(ex.g.tags.tag(c)))))
		}
		ex.usedAssume["A-CLOSED: interface implementers are those in the loaded program"] = true
		return Or(alts...)
	}
	return Eq(ITag(i), IntLit(int64(ex.g.tags.tag(t))))
}

func (ex *Exec) doTypeAssert(s *State, in *ssa.TypeAssert) Val {
	i := ex.scalar(s, in.X)
	cond := ex.hasTypeCond(i, in.AssertedType)
	_, toIface := in.AssertedType.Underlying().(*types.Interface)
	payload := func() Val {
		if toIface {
			return Scalar{i}
		}
		return ex.ifacePayload(s, i, in.AssertedType)
	}
	if _, isPtr := in.AssertedType.Underlying().(*types.Pointer); isPtr {
		// interface values never hold typed nil pointers (enforced at every
		// MakeInterface in /repo: obligation ifacenonnil; A-TYPEDNIL for the rest)
		s.assume(Implies(cond, Not(Eq(IRef(i), TNilR))))
		// canonical form: a pointer payload lives in the ref component only
		s.assume(Implies(cond, And(Eq(IBV(i), BVLit(0, 64)), Eq(IStr(i), Term{"str_empty", SStr}))))
		ex.usedAssume["A-TYPEDNIL: interface values reaching /repo code from outside hold no typed nil pointers (enforced for values created in /repo)"] = true
	}
	if !in.CommaOk {
		ex.panicObl(s, in, "typeassert", cond)
		return payload()
	}
	// comma-ok: value is zero when !ok. We bind ok to a fresh bool equal to
	// cond and the value conditionally.
	ok := s.declare(ex.g.fresh("ok"), SBool)
	s.assume(Eq(ok, cond))
	pv := payload()
	var v Val
	switch p := pv.(type) {
	case PtrV:
		v = PtrV{Base: Ite(ok, p.Base, TNilR), Root: p.Root}
	case Scalar:
		v = Scalar{Ite(ok, p.T, zeroOf(p.T.Sort))}
	default:
		v = pv
	}
	return TupleV{v, Scalar{ok}}
}

func (ex *Exec) doSlice(s *State, in *ssa.Slice) Val {
	x := ex.val(s, in.X)
	var lo, hi, mx *Term
	get := func(v ssa.Value) *Term {
		if v == nil {
			return nil
		}
		t := ex.idx64(s, v)
		return &t
	}
	lo, hi, mx = get(in.Low), get(in.High), get(in.Max)
	zero := BVLit(0, 64)
	switch xt := in.X.Type().Underlying().(type) {
	case *types.Slice:
		sl := ex.asScalar(x)
		l := zero
		if lo != nil {
			l = *lo
		}
		h := SlLen(sl)
		if hi != nil {
			h = *hi
		}
		c := SlCap(sl)
		if mx != nil {
			c = *mx
		}
		// 0 <= l <= h <= max <= cap
		ex.panicObl(s, in, "slice", And(BVSle(zero, l), BVSle(l, h), BVSle(h, c), BVSle(c, SlCap(sl))))
		return Scalar{MkSlice(SlBase(sl), BVAdd(SlOff(sl), l), BVSub(h, l), BVSub(c, l))}
	case *types.Basic: // string
		st := ex.asScalar(x)
		l := zero
		if lo != nil {
			l = *lo
		}
		h := StrLen(st)
		if hi != nil {
			h = *hi
		}
		ex.panicObl(s, in, "slice", And(BVSle(zero, l), BVSle(l, h), BVSle(h, StrLen(st))))
		r := s.declare(ex.g.fresh("sub"), SStr)
		s.assume(Eq(StrLen(r), BVSub(h, l)))
		i := ex.g.fresh("i")
		s.assume(Term{fmt.Sprintf("(forall ((%s (_ BitVec 64))) (! (= (sat %s %s) (sat %s (bvadd %s %s))) :pattern ((sat %s %s))))",
			i, r.S, i, st.S, l.S, i, r.S, i), SBool})
		return Scalar{r}
	case *types.Pointer:
		arr := xt.Elem().Underlying().(*types.Array)
		p := x.(PtrV)
		if len(p.Path) != 0 {
			ex.fail("slice of array inside struct")
		}
		ex.nilCheck(s, in, p.Base)
		n := BVLit(uint64(arr.Len()), 64)
		l := zero
		if lo != nil {
			l = *lo
		}
		h := n
		if hi != nil {
			h = *hi
		}
		c := n
		if mx != nil {
			c = *mx
		}
		ex.panicObl(s, in, "slice", And(BVSle(zero, l), BVSle(l, h), BVSle(h, c), BVSle(c, n)))
		return Scalar{MkSlice(p.Base, l, BVSub(h, l), BVSub(c, l))}
	}
	ex.fail("slice of %s", in.X.Type())
	return nil
}

func (ex *Exec) doMakeSlice(s *State, in *ssa.MakeSlice) Val {
	ln := ex.idx64(s, in.Len)
	cp := ex.idx64(s, in.Cap)
	ex.panicObl(s, in, "makelen", And(BVSle(BVLit(0, 64), ln), BVSle(ln, cp), BVUle(cp, BVLit(1<<40, 64))))
	elem := in.Type().Underlying().(*types.Slice).Elem()
	base := ex.newRef(s)
	name, m, es := ex.memArr(s, elem)
	zero := Term{fmt.Sprintf("((as const (Array (_ BitVec 64) %s)) %s)", es, zeroOf(es)), SArray(SBV(64), es)}
	s.heapSet(name, Store(m, base, zero))
	return Scalar{MkSlice(base, BVLit(0, 64), ln, cp)}
}

// ---- maps --------------------------------------------------------------------

func mapHeapNames(mt *types.Map) (string, string) {
	k := "|Map:" + shortPkg(types.TypeString(mt, nil))
	return k + "#dom|", k + "#val|"
}

func (ex *Exec) mapArrs(s *State, mt *types.Map) (dn, vn string, dom, val Term, ks, vs Sort) {
	ks, vs = sortOf(mt.Key()), sortOf(mt.Elem())
	if vs == "Struct" {
		ex.fail("map with struct values unsupported")
	}
	dn, vn = mapHeapNames(mt)
	dom = s.heapCur(dn, SArray(SRef, SArray(ks, SBool)))
	val = s.heapCur(vn, SArray(SRef, SArray(ks, vs)))
	return
}

func (ex *Exec) doMakeMap(s *State, in *ssa.MakeMap) Val {
	mt := in.Type().Underlying().(*types.Map)
	r := ex.newRef(s)
	dn, _, dom, _, ks, _ := ex.mapArrs(s, mt)
	s.heapSet(dn, Store(dom, r, Term{fmt.Sprintf("((as const (Array %s Bool)) false)", ks), SArray(ks, SBool)}))
	return Scalar{r}
}

func (ex *Exec) doLookup(s *State, in *ssa.Lookup) Val {
	if mt, ok := in.X.Type().Underlying().(*types.Map); ok {
		m := ex.scalar(s, in.X)
		k := ex.scalar(s, in.Index)
		_, _, dom, val, _, vs := ex.mapArrs(s, mt)
		has := And(Not(Eq(m, TNilR)), Select(Select(dom, m), k))
		raw := Select(Select(val, m), k)
		if vs == SRef || vs == SSlice || vs == SIface || vs == SStr {
			ex.assumeWF(s, raw, mt.Elem())
		}
		v := Ite(has, raw, zeroOf(vs))
		var rv Val = Scalar{v}
		if pt, ok := mt.Elem().Underlying().(*types.Pointer); ok {
			rv = PtrV{Base: v, Root: pt.Elem()}
		}
		if in.CommaOk {
			return TupleV{rv, Scalar{has}}
		}
		return rv
	}
	// string index
	st := ex.scalar(s, in.X)
	idx := ex.idx64(s, in.Index)
	ex.panicObl(s, in, "index", And(BVSle(BVLit(0, 64), idx), BVSlt(idx, StrLen(st))))
	return Scalar{StrAt(st, idx)}
}

// guardMapWrite: a map stored in a guarded field is part of the guarded data;
// inserting into it or deleting from it needs the write lock (C29).
func (ex *Exec) guardMapWrite(s *State, mv ssa.Value) {
	ld, ok := mv.(*ssa.UnOp)
	if !ok {
		return
	}
	fa, ok := ld.X.(*ssa.FieldAddr)
	if !ok {
		return
	}
	pv, ok := ex.val(s, fa).(PtrV)
	if !ok || len(pv.Path) == 0 {
		return
	}
	ex.guardCheck(s, pv.Base, pv.Root, pv.Path, true)
}

func (ex *Exec) mapUpdate(s *State, in *ssa.MapUpdate) {
	ex.guardMapWrite(s, in.Map)
	mt := in.Map.Type().Underlying().(*types.Map)
	m := ex.scalar(s, in.Map)
	k := ex.scalar(s, in.Key)
	v := ex.asScalar(ex.val(s, in.Value))
	ex.panicObl(s, in, "nilmap", Not(Eq(m, TNilR)))
	dn, vn, dom, val, _, _ := ex.mapArrs(s, mt)
	s.heapSet(dn, Store(dom, m, Store(Select(dom, m), k, TTrue)))
	s.heapSet(vn, Store(val, m, Store(Select(val, m), k, v)))
}

// ---- return --------------------------------------------------------------------

func (ex *Exec) doReturn(s *State, in *ssa.Return) []*State {
	fr := s.top()
	var res []Val
	for _, r := range in.Results {
		res = append(res, ex.val(s, r))
	}
	if fr.IsRoot {
		if !ex.dry {
			ex.checkPost(s, in, res)
		}
		s.Dead = true
		return nil
	}
	// inlined frame returns to caller
	s.Stack = s.Stack[:len(s.Stack)-1]
	caller := s.top()
	if fr.RetTo != nil {
		switch len(res) {
		case 0:
		case 1:
			caller.Regs[fr.RetTo] = res[0]
		default:
			caller.Regs[fr.RetTo] = TupleV(res)
		}
	}
	if !fr.RetStay {
		caller.Idx++
	}
	if fr.CallInstr != nil {
		var rv Val
		if len(res) == 1 {
			rv = res[0]
		} else if len(res) > 1 {
			rv = TupleV(res)
		}
		ex.afterCall(s, fr.CallInstr, rv)
	}
	return nil
}

// ---- initial state --------------------------------------------------------------

func (ex *Exec) initialState() *State {
	s := &State{Heap: map[string]Term{}, Ghost: map[string]Term{}, CallCount: map[string]int{}}
	// A0, the allocation frontier at entry: references below it denote the
	// objects that exist when the function is entered, A0+k the k-th object
	// allocated since. References are only ever compared, so the value is
	// immaterial as long as it leaves room for the pre-existing objects; a
	// literal (2^40, part of A-SLICE: fewer than 2^40 objects exist) keeps the
	// solvers' arithmetic to bound reasoning, which is several times faster
	// than a symbolic frontier.
	s.Decls = append(s.Decls, "(define-fun A0 () Int 1099511627776)")
	fr := &Frame{Fn: ex.fn, Regs: map[ssa.Value]Val{}, Block: ex.fn.Blocks[0], LoopSeen: map[*ssa.BasicBlock]bool{}, Con: ex.con, IsRoot: true}
	s.Stack = []*Frame{fr}
	for _, p := range ex.fn.Params {
		fr.Regs[p] = ex.freshVal(s, p.Type(), "p_"+p.Name())
	}
	for i, fv := range ex.fn.FreeVars {
		fr.Regs[fv] = ex.freshVal(s, fv.Type(), fmt.Sprintf("fv%d_%s", i, fv.Name()))
		// captured variables live in allocated cells: the cell pointer is never nil
		if p, ok := fr.Regs[fv].(PtrV); ok {
			s.assume(Not(Eq(p.Base, TNilR)))
		}
	}
	// implicit precondition: pointer receivers are non-nil (checked at
	// every static call site, see applyContract)
	if ex.fn.Signature.Recv() != nil && len(ex.fn.Params) > 0 {
		if p, ok := fr.Regs[ex.fn.Params[0]].(PtrV); ok {
			s.assume(Not(Eq(p.Base, TNilR)))
		}
	}
	if ex.con != nil {
		ex.asyncOwn(s)
		env := ex.rootEnv(s, nil)
		for _, r := range ex.con.Requires {
			s.assume(ex.evalBool(env, r.Expr))
		}
		for _, r := range ex.con.Invariants {
			s.assume(ex.evalBool(env, r.Expr))
		}
		// vacuity guard: the precondition must be satisfiable
		ex.cover(s, ex.key+"#cover.pre", ex.con.AllTags(), ex.fn.Pos())
		ex.asyncInit(s)
	}
	return s
}

// ---- loops ---------------------------------------------------------------------

type loopInfo struct {
	Header  *ssa.BasicBlock
	Blocks  map[*ssa.BasicBlock]bool
	Ordinal int
}

func (ex *Exec) computeLoops(fn *ssa.Function) {
	ex.loops = map[*ssa.BasicBlock]*loopInfo{}
	// back edge: b -> h where h dominates b
	var headers []*ssa.BasicBlock
	for _, b := range fn.Blocks {
		for _, succ := range b.Succs {
			if succ.Dominates(b) {
				if ex.loops[succ] == nil {
					ex.loops[succ] = &loopInfo{Header: succ, Blocks: map[*ssa.BasicBlock]bool{succ: true}}
					headers = append(headers, succ)
				}
				// natural loop body: nodes that reach b without passing h
				li := ex.loops[succ]
				var stack []*ssa.BasicBlock
				if !li.Blocks[b] {
					li.Blocks[b] = true
					stack = append(stack, b)
				}
				for len(stack) > 0 {
					x := stack[len(stack)-1]
					stack = stack[:len(stack)-1]
					for _, p := range x.Preds {
						if !li.Blocks[p] {
							li.Blocks[p] = true
							stack = append(stack, p)
						}
					}
				}
			}
		}
	}
	sort.Slice(headers, func(i, j int) bool { return headers[i].Index < headers[j].Index })
	for i, h := range headers {
		ex.loops[h].Ordinal = i
	}
}

