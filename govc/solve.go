package main

// Discharging obligations: one stand-alone SMT-LIB 2 query per obligation,
// z3-new first, then a race of all installed solvers (DESIGN.md 5.2).

import (
	"bufio"
	"bytes"
	"context"
	"fmt"
	"os"
	"os/exec"
	"path/filepath"
	"regexp"
	"strings"
	"sync"
	"sync/atomic"
	"time"
)

// coverQF: a cover (vacuity) query restricted to its quantifier-free
// assertions. Quantified assertions only come from defining axioms of fresh
// arrays/strings (trusted models) and from quantified contract clauses; model
// finding under them is expensive, so covers are decided on the
// quantifier-free part when the full query does not answer quickly. This can
// miss a contradiction that needs a quantified assumption; it is recorded in
// the evidence as solver "…(qf)".
func coverQF(o *Obligation) *Obligation {
	c := *o
	c.Asserts = nil
	for _, a := range o.Asserts {
		if strings.Contains(a.S, "(forall ") || strings.Contains(a.S, "(exists ") {
			continue
		}
		c.Asserts = append(c.Asserts, a)
	}
	return &c
}

const extraPreamble = `(declare-fun str_contains (Str Str) Bool)
(declare-fun inrange (Iface Iface) Bool)
(declare-fun sep_count (Slice) (_ BitVec 64))
(declare-fun str_join_ (Int (_ BitVec 64) (_ BitVec 64) Str) Str)
(declare-fun flag_bool (Int Str) Bool)
(declare-fun flag_set (Int Str) Bool)
(declare-fun flag_str (Int Str) Str)
(declare-fun flag_int (Int Str) (_ BitVec 64))
(declare-fun flag_strs (Int Str) Slice)
(define-fun str_join ((s Slice) (sep Str)) Str (str_join_ (sbase s) (soff s) (slen_ s) sep))
`

func (g *G) queryText(o *Obligation, withModel bool) string {
	var b strings.Builder
	var body strings.Builder
	for _, d := range o.Decls {
		body.WriteString(d)
		body.WriteString("\n")
	}
	for _, a := range o.Asserts {
		fmt.Fprintf(&body, "(assert %s)\n", a.S)
	}
	if !o.Cover {
		fmt.Fprintf(&body, "(assert (not %s))\n", o.Goal.S)
	}
	bs := body.String()
	b.WriteString(smtPreamble)
	b.WriteString(extraPreamble)
	b.WriteString(g.strLitDecls(bs))
	b.WriteString(bs)
	b.WriteString("(check-sat)\n")
	if withModel && len(o.Models) > 0 {
		fmt.Fprintf(&b, "(get-value (%s))\n", strings.Join(o.Models, " "))
	}
	return b.String()
}

type solverSpec struct {
	name string
	args func(file string, timeoutMs int) []string
}

var solvers = []solverSpec{
	{"z3-new", func(f string, t int) []string { return []string{"z3-new", fmt.Sprintf("-t:%d", t), f} }},
	{"z3-new(e)", func(f string, t int) []string {
		return []string{"z3-new", "smt.mbqi=false", "smt.arith.solver=2", fmt.Sprintf("-t:%d", t), f}
	}},
	{"z3", func(f string, t int) []string { return []string{"z3", fmt.Sprintf("-t:%d", t), f} }},
	{"cvc5", func(f string, t int) []string {
		return []string{"cvc5", "--produce-models", fmt.Sprintf("--tlimit=%d", t), f}
	}},
}

type solveOut struct {
	res    string
	solver string
	secs   float64
	raw    string
}

func runSolver(sp solverSpec, file string, timeoutMs int) solveOut {
	return runSolverCtx(context.Background(), sp, file, timeoutMs)
}

func runSolverCtx(parent context.Context, sp solverSpec, file string, timeoutMs int) solveOut {
	ctx, cancel := context.WithTimeout(parent, time.Duration(timeoutMs+2000)*time.Millisecond)
	defer cancel()
	a := sp.args(file, timeoutMs)
	cmd := exec.CommandContext(ctx, a[0], a[1:]...)
	var out bytes.Buffer
	cmd.Stdout = &out
	cmd.Stderr = &out
	t0 := time.Now()
	_ = cmd.Run()
	secs := time.Since(t0).Seconds()
	raw := out.String()
	first := firstAnswer(raw)
	res := "error"
	switch first {
	case "unsat", "sat", "unknown":
		res = first
	case "timeout":
		res = "timeout"
	default:
		if strings.Contains(raw, "timeout") || ctx.Err() != nil {
			res = "timeout"
		}
	}
	return solveOut{res, sp.name, secs, raw}
}

// ---- persistent solver workers (z3 -in with (reset) between queries) ------------

type worker struct {
	cmd *exec.Cmd
	in  *bufio.Writer
	out *bufio.Reader
	w   interface{ Close() error }
}

func startWorker(timeoutMs int) (*worker, error) {
	// E-matching only: model-based instantiation costs seconds on the large
	// array terms and never decides these goals; a query it would have
	// answered still gets a default-configuration solver in the fallback race
	// smt.arith.solver=2: references are integers compared with the allocation
	// frontier; z3 5.1's default arithmetic solver spends tens of seconds in
	// theory combination on them where the older simplex answers at once
	cmd := exec.Command("z3-new", "-in", "smt.mbqi=false", "smt.arith.solver=2", fmt.Sprintf("-t:%d", timeoutMs))
	stdin, err := cmd.StdinPipe()
	if err != nil {
		return nil, err
	}
	stdout, err := cmd.StdoutPipe()
	if err != nil {
		return nil, err
	}
	cmd.Stderr = nil
	if err := cmd.Start(); err != nil {
		return nil, err
	}
	return &worker{cmd: cmd, in: bufio.NewWriterSize(stdin, 1<<20), out: bufio.NewReaderSize(stdout, 1<<20), w: stdin}, nil
}

func (w *worker) stop() {
	if w == nil {
		return
	}
	w.w.Close()
	done := make(chan struct{})
	go func() { w.cmd.Wait(); close(done) }()
	select {
	case <-done:
	case <-time.After(2 * time.Second):
		w.cmd.Process.Kill()
	}
}

const doneMark = "<<govc-done>>"

// query sends one query; returns raw output up to the marker.
func (w *worker) query(txt string, hardTimeout time.Duration) (string, bool) {
	w.in.WriteString("(reset)\n")
	w.in.WriteString(txt)
	w.in.WriteString("(echo \"" + doneMark + "\")\n")
	if err := w.in.Flush(); err != nil {
		return "", false
	}
	type res struct {
		s  string
		ok bool
	}
	ch := make(chan res, 1)
	go func() {
		var b strings.Builder
		for {
			line, err := w.out.ReadString('\n')
			if strings.Contains(line, doneMark) {
				ch <- res{b.String(), true}
				return
			}
			b.WriteString(line)
			if err != nil {
				ch <- res{b.String(), false}
				return
			}
		}
	}()
	select {
	case r := <-ch:
		return r.s, r.ok
	case <-time.After(hardTimeout):
		w.cmd.Process.Kill()
		return "", false
	}
}

// ---- feasibility checks during symbolic execution -------------------------------

var feasPool = make(chan *worker, 16)
var feasCount, feasPruned int64

// feasible reports whether the path condition of s may be satisfiable
// (quantified assertions are dropped, which only weakens the condition, so
// "unsat" is a sound reason to prune; unknown/timeout/error count as
// feasible).
func (g *G) feasible(s *State) bool {
	var w *worker
	select {
	case w = <-feasPool:
	default:
		var err error
		w, err = startWorker(1000)
		if err != nil {
			return true
		}
	}
	var body strings.Builder
	for _, d := range s.Decls {
		body.WriteString(d)
		body.WriteString("\n")
	}
	for _, a := range s.Asserts {
		if strings.Contains(a.S, "(forall ") || strings.Contains(a.S, "(exists ") {
			continue
		}
		fmt.Fprintf(&body, "(assert %s)\n", a.S)
	}
	bs := body.String()
	txt := smtPreamble + extraPreamble + g.strLitDecls(bs) + bs + "(check-sat)\n"
	raw, ok := w.query(txt, 4*time.Second)
	atomic.AddInt64(&feasCount, 1)
	if !ok {
		w.stop()
		return true
	}
	select {
	case feasPool <- w:
	default:
		w.stop()
	}
	if os.Getenv("GOVC_DEBUG_FEAS") != "" {
		fmt.Fprintf(os.Stderr, "feasible? %s (%d asserts)\n", firstAnswer(raw), len(s.Asserts))
		if os.Getenv("GOVC_DEBUG_FEAS") == "dump" {
			os.WriteFile(fmt.Sprintf("/tmp/feas_%d.smt2", atomic.LoadInt64(&feasCount)), []byte(txt), 0o644)
		}
	}
	if firstAnswer(raw) == "unsat" {
		atomic.AddInt64(&feasPruned, 1)
		return false
	}
	return true
}

func stopFeasPool() {
	for {
		select {
		case w := <-feasPool:
			w.stop()
		default:
			return
		}
	}
}

// solveAll discharges obligations in parallel.
func (g *G) solveAll(obls []*Obligation, dir string, timeoutMs int, thorough bool) {
	os.MkdirAll(dir, 0o755)
	var wg sync.WaitGroup
	type job struct {
		i int
		o *Obligation
	}
	jobs := make(chan job, len(obls))
	n := 0
	for i, o := range obls {
		if o.Result != "" {
			continue
		}
		jobs <- job{i, o}
		n++
	}
	close(jobs)
	nw := 16
	if n < nw {
		nw = n
	}
	quick := timeoutMs
	if quick > 20000 {
		quick = 20000
	}
	for k := 0; k < nw; k++ {
		wg.Add(1)
		go func() {
			defer wg.Done()
			var w *worker
			defer func() { w.stop() }()
			for j := range jobs {
				if w == nil {
					w, _ = startWorker(quick)
				}
				file := filepath.Join(dir, fmt.Sprintf("q%05d.smt2", j.i))
				if w != nil && j.o.Cover {
					// covers: quantifier-free part first (fast), full query only if that is unsat
					raw, ok := w.query(g.queryText(coverQF(j.o), false), time.Duration(quick+3000)*time.Millisecond)
					if !ok {
						w.stop()
						w = nil
					} else if first := firstAnswer(raw); first == "unsat" {
						j.o.Result, j.o.Solver, j.o.Raw = "unsat", "z3-new(qf)", raw
						os.WriteFile(file, []byte(g.queryText(j.o, false)), 0o644)
						continue
					} else if first == "sat" && len(coverQF(j.o).Asserts) == len(j.o.Asserts) {
						j.o.Result, j.o.Solver, j.o.Raw = "sat", "z3-new", raw
						continue
					} else if first == "sat" {
						// full query with a short budget: only a definite unsat overrides
						t0 := time.Now()
						raw2, ok2 := w.query("(set-option :timeout 1000)\n"+g.queryText(j.o, false), 5*time.Second)
						j.o.Secs = time.Since(t0).Seconds()
						if !ok2 {
							w.stop()
							w = nil
						}
						if ok2 && firstAnswer(raw2) == "unsat" {
							j.o.Result, j.o.Solver, j.o.Raw = "unsat", "z3-new", raw2
							os.WriteFile(file, []byte(g.queryText(j.o, false)), 0o644)
						} else if ok2 && firstAnswer(raw2) == "sat" {
							j.o.Result, j.o.Solver = "sat", "z3-new"
						} else {
							j.o.Result, j.o.Solver = "sat", "z3-new(qf)"
						}
						continue
					}
				}
				if w != nil {
					txt := g.queryText(j.o, true)
					t0 := time.Now()
					raw, ok := w.query(txt, time.Duration(quick+3000)*time.Millisecond)
					secs := time.Since(t0).Seconds()
					if !ok {
						w.stop()
						w = nil
					} else {
						first := firstAnswer(raw)
						want := "unsat"
						if j.o.Cover {
							want = "sat"
						}
						if first == want || (first == "sat" && !thorough) || (first == "unsat" && !thorough) {
							j.o.Result, j.o.Solver, j.o.Secs, j.o.Raw = first, "z3-new(pool)", secs, raw
							if first == "sat" && !j.o.Cover && len(j.o.Models) > 0 {
								j.o.Model = parseValues(raw)
							}
							if first != want {
								os.WriteFile(file, []byte(g.queryText(j.o, false)), 0o644)
							}
							continue
						}
					}
				}
				j.o.poolTried = w != nil
				g.solveOne(j.o, file, timeoutMs, thorough)
			}
		}()
	}
	wg.Wait()
}

func (g *G) solveOne(o *Obligation, file string, timeoutMs int, thorough bool) {
	want := "unsat"
	if o.Cover {
		want = "sat"
	}
	txt := g.queryText(o, false)
	if err := os.WriteFile(file, []byte(txt), 0o644); err != nil {
		o.Result = "error"
		o.Raw = err.Error()
		return
	}
	// fast path
	quick := timeoutMs
	if quick > 3000 {
		quick = 3000
	}
	r := solveOut{res: "unknown", solver: "z3-new"}
	if !o.poolTried {
		r = runSolver(solvers[0], file, quick)
	}
	definite := func(x string) bool { return x == "sat" || x == "unsat" }
	if !definite(r.res) {
		// race all solvers with the full timeout
		// a fresh z3-new process takes part even when the pooled worker gave
		// up: a worker after (reset) is not in the state of a fresh process
		// and borderline queries come out differently
		race := solvers
		ch := make(chan solveOut, len(race))
		// the losers are killed as soon as one solver gives a definite answer
		rctx, stopRace := context.WithCancel(context.Background())
		defer stopRace()
		for _, sp := range race {
			go func(sp solverSpec) { ch <- runSolverCtx(rctx, sp, file, timeoutMs) }(sp)
		}
		var outs []solveOut
		for range race {
			x := <-ch
			outs = append(outs, x)
			if definite(x.res) {
				r = x
				break
			}
		}
		stopRace()
		if !definite(r.res) {
			// Second round before an obligation is reported as undecided: a
			// timeout or "unknown" is not a refutation (DESIGN 5.2), and
			// borderline queries are sensitive to machine load and to the
			// solver's random choices. Three differently seeded z3-new
			// processes with three times the budget; the first definite answer
			// wins. A real violation answers "sat" (above) or stays undecided
			// here as well and is then reported.
			seeds := []string{"1", "7", "23"}
			ch2 := make(chan solveOut, len(seeds))
			rctx2, stop2 := context.WithCancel(context.Background())
			for _, sd := range seeds {
				sd := sd
				sp := solverSpec{"z3-new(seed " + sd + ")", func(f string, t int) []string {
					return []string{"z3-new", "smt.mbqi=false", "smt.arith.solver=2", "smt.random_seed=" + sd, "sat.random_seed=" + sd, fmt.Sprintf("-t:%d", t), f}
				}}
				go func(sp solverSpec) { ch2 <- runSolverCtx(rctx2, sp, file, 3*timeoutMs) }(sp)
			}
			for range seeds {
				x := <-ch2
				outs = append(outs, x)
				if definite(x.res) {
					r = x
					break
				}
			}
			stop2()
		}
		if !definite(r.res) {
			// keep the most informative
			r = outs[0]
			for _, x := range outs {
				if x.res == "unknown" {
					r = x
				}
			}
			var all []string
			for _, x := range outs {
				all = append(all, fmt.Sprintf("%s: %s after %.1fs", x.solver, x.res, x.secs))
			}
			r.raw = "no solver decided the query (" + strings.Join(all, "; ") + ")\n" + r.raw
		}
	} else if thorough {
		// second opinion from an independent back end
		for _, sp := range solvers[1:] {
			x := runSolver(sp, file, timeoutMs)
			if definite(x.res) {
				if x.res != r.res {
					r = solveOut{"unknown", r.solver + "+" + x.solver, r.secs + x.secs, "solver_disagreement: " + r.res + " vs " + x.res}
				} else {
					r.solver = r.solver + "+" + x.solver
					r.secs += x.secs
				}
				break
			}
		}
	}
	o.Result, o.Solver, o.Secs, o.Raw = r.res, r.solver, r.secs, r.raw
	if o.Result == "sat" && !o.Cover && len(o.Models) > 0 {
		// fetch model values
		txt := g.queryText(o, true)
		mf := strings.TrimSuffix(file, ".smt2") + ".model.smt2"
		os.WriteFile(mf, []byte(txt), 0o644)
		for _, sp := range solvers {
			if !strings.HasPrefix(r.solver, sp.name) {
				continue
			}
			x := runSolver(sp, mf, timeoutMs)
			if x.res == "sat" {
				o.Model = parseValues(x.raw)
				o.Raw = x.raw
			}
			break
		}
	}
	if o.Result == want {
		os.Remove(file)
	}
}

var valRe = regexp.MustCompile(`\(\s*(\S.*?)\s+(#x[0-9a-fA-F]+|#b[01]+|\(_ bv\d+ \d+\)|true|false|-?\d+|\(- \d+\))\s*\)`)

// parseValues parses a (get-value ...) answer into term -> value text.
func parseValues(raw string) map[string]string {
	out := map[string]string{}
	i := strings.Index(raw, "\n")
	if i < 0 {
		return out
	}
	body := strings.TrimSpace(raw[i+1:])
	// split top-level pairs
	body = strings.TrimPrefix(body, "(")
	depth := 0
	start := -1
	for j := 0; j < len(body); j++ {
		switch body[j] {
		case '(':
			if depth == 0 {
				start = j
			}
			depth++
		case ')':
			depth--
			if depth == 0 && start >= 0 {
				pair := body[start+1 : j]
				// last token/paren group is the value
				k := splitPair(pair)
				if k > 0 {
					out[strings.TrimSpace(pair[:k])] = strings.TrimSpace(pair[k:])
				}
				start = -1
			}
		}
	}
	return out
}

func splitPair(p string) int {
	p = strings.TrimRight(p, " \n")
	if strings.HasSuffix(p, ")") {
		d := 0
		for j := len(p) - 1; j >= 0; j-- {
			switch p[j] {
			case ')':
				d++
			case '(':
				d--
				if d == 0 {
					return j
				}
			}
		}
		return -1
	}
	j := strings.LastIndexAny(p, " \n")
	return j + 1
}

func parseBV(v string) (uint64, bool) {
	v = strings.TrimSpace(v)
	var x uint64
	switch {
	case strings.HasPrefix(v, "#x"):
		_, err := fmt.Sscanf(v[2:], "%x", &x)
		return x, err == nil
	case strings.HasPrefix(v, "#b"):
		for _, c := range v[2:] {
			x = x<<1 | uint64(c-'0')
		}
		return x, true
	case strings.HasPrefix(v, "(_ bv"):
		_, err := fmt.Sscanf(v, "(_ bv%d", &x)
		return x, err == nil
	}
	return 0, false
}

// firstAnswer: the solver's answer line, skipping warnings.
func firstAnswer(raw string) string {
	for _, l := range strings.Split(raw, "\n") {
		l = strings.TrimSpace(l)
		if l == "" || strings.HasPrefix(l, "WARNING") || strings.HasPrefix(l, "(warning") {
			continue
		}
		return l
	}
	return ""
}
