#!/usr/bin/env python3
"""Must-fail / must-pass corpus for the checks (run after every engine or
contract change).

  tools/selftest.py [case ...]       # default: every directory under selftest/ and seeded/

Each case directory holds patch.diff (applies to /repo with `git apply`) and
meta.json: {"properties": [...], "expect": "violation" | "pass"}. The patch is
applied to /repo's working tree, `go build ./...` and the listed checks run,
(on a scratch copy of /repo; evidence of such runs goes to work/scratch-evidence,
never to evidence/). A "violation" case passes
when at least one listed check exits 1 with a VIOLATION line; a "pass" case
when every listed check exits 0. Results go to selftest/RESULTS.json.
"""
import json, os, subprocess, sys, time

HERE = os.path.dirname(os.path.dirname(os.path.abspath(__file__)))
SRC = "/repo"
# The corpus is applied to a scratch copy (outside /repo and /verif, removed
# at the end) so that /repo's working tree is never touched.
REPO = "/tmp/verif_selftest_repo"
ENV = dict(os.environ, GOFLAGS="-mod=mod", GOPROXY="off", GOSUMDB="off", GOTOOLCHAIN="local", VERIF_REPO=REPO)


def sh(cmd, cwd=None):
    p = subprocess.run(cmd, shell=True, cwd=cwd, env=ENV, stdout=subprocess.PIPE, stderr=subprocess.STDOUT, text=True)
    return p.returncode, p.stdout


def cases(args):
    out = []
    if args:
        for a in args:
            out.append(a if os.path.isabs(a) else os.path.join(HERE, a))
        return out
    for root in ("selftest", "seeded"):
        d = os.path.join(HERE, root)
        if not os.path.isdir(d):
            continue
        for n in sorted(os.listdir(d)):
            p = os.path.join(d, n)
            if os.path.isfile(os.path.join(p, "patch.diff")):
                out.append(p)
            elif os.path.isdir(p):
                for m in sorted(os.listdir(p)):
                    q = os.path.join(p, m)
                    if os.path.isfile(os.path.join(q, "patch.diff")):
                        out.append(q)
    return out


def main():
    sh("rm -rf %s && mkdir -p %s && rsync -a --exclude .git %s/ %s/" % (REPO, REPO, SRC, REPO))
    results = []
    bad = 0
    for c in cases(sys.argv[1:]):
        meta = json.load(open(os.path.join(c, "meta.json")))
        name = os.path.relpath(c, HERE)
        sh("rsync -a --delete --exclude .git %s/ %s/" % (SRC, REPO))
        rc, out = sh("git apply " + os.path.join(c, "patch.diff"), REPO)
        if rc != 0:
            print("%-40s PATCH DOES NOT APPLY" % name)
            results.append({"case": name, "ok": False, "why": "patch does not apply"})
            bad += 1
            continue
        try:
            rcb, outb = sh("go build ./... && go vet -tags verif ./... >/dev/null 2>&1; go build -tags verif ./...", REPO)
            got = {}
            failed = []
            t0 = time.time()
            for p in meta["properties"]:
                rc, out = sh("./check " + p, HERE)
                viol = [l for l in out.splitlines() if l.startswith("VIOLATION")]
                failed += [l.strip() for l in out.splitlines() if l.startswith("  obligation")]
                got[p] = {"exit": rc, "violations": len(viol)}
            secs = time.time() - t0
            if meta["expect"] == "violation":
                ok = any(v["exit"] == 1 and v["violations"] > 0 for v in got.values())
            else:
                ok = all(v["exit"] == 0 and v["violations"] == 0 for v in got.values())
            if rcb != 0:
                ok = False
            print("%-40s %-4s expect=%-9s %s %.0fs" % (name, "ok" if ok else "BAD", meta["expect"], json.dumps(got), secs))
            for f in failed[:6]:
                print("      " + f[:200])
            if rcb != 0:
                print("      does not build: " + outb[:300])
            results.append({"case": name, "ok": ok, "expect": meta["expect"], "got": got, "failed_obligations": failed, "builds": rcb == 0})
            if not ok:
                bad += 1
        finally:
            pass
    sh("rm -rf " + REPO)
    # RESULTS.json holds the latest result of every case: a run of the whole
    # corpus rewrites it, a run of selected cases replaces just their entries.
    print("%d cases run, %d bad" % (len(results), bad))
    rp = os.path.join(HERE, "selftest", "RESULTS.json")
    if sys.argv[1:] and os.path.exists(rp):
        done = {r["case"] for r in results}
        results = [r for r in json.load(open(rp)) if r["case"] not in done] + results
        results.sort(key=lambda r: r["case"])
    json.dump(results, open(rp, "w"), indent=1)
    bad_total = sum(1 for r in results if not r.get("ok"))
    print("RESULTS.json: %d cases recorded, %d bad" % (len(results), bad_total))
    return 1 if bad else 0


if __name__ == "__main__":
    sys.exit(main())
