#!/usr/bin/env python3
"""Must-fail / must-pass corpus for the checks (run after every engine or
contract change).

  tools/selftest.py [case ...]       # default: every directory under selftest/ and seeded/

Each case directory holds patch.diff (applies to /repo with `git apply`) and
meta.json: {"properties": [...], "expect": "violation" | "pass"}. The patch is
applied to /repo's working tree, `go build ./...` and the listed checks run,
(on a scratch copy of /repo; evidence of such runs goes to work/scratch-evidence,
never to evidence/). A "violation" case passes
when at least one listed check exits 1 with a VIOLATION line; a "pass" case
when every listed check exits 0. Results go to selftest/RESULTS.json.
"""
import json, os, subprocess, sys, time, shutil, threading, queue

HERE = os.path.dirname(os.path.dirname(os.path.abspath(__file__)))
SRC = "/repo"
# The corpus is applied to scratch copies (outside /repo and /verif, removed
# at the end) so that /repo's working tree is never touched. Each worker has
# its own copy of the repository and its own output directory (work files,
# replays, scratch evidence), so cases can run side by side.
BASE = "/tmp/verif_selftest"
JOBS = int(os.environ.get("SELFTEST_JOBS", "3"))


def env_for(k):
    # VERIF_NOBUILD: the engine is built once before the corpus runs (main); an edit of govc/*.go while the
    # corpus runs must not change the engine half-way
    return dict(os.environ, GOFLAGS="-mod=mod", GOPROXY="off", GOSUMDB="off", GOTOOLCHAIN="local",
                VERIF_REPO="%s/repo%d" % (BASE, k), VERIF_OUT="%s/out%d" % (BASE, k), VERIF_NOBUILD="1")


def sh(cmd, cwd=None, env=None):
    p = subprocess.run(cmd, shell=True, cwd=cwd, env=env, stdout=subprocess.PIPE, stderr=subprocess.STDOUT, text=True, errors="replace")
    return p.returncode, p.stdout


def cases(args):
    out = []
    if args:
        for a in args:
            a = a if os.path.isabs(a) else os.path.join(HERE, a)
            if os.path.isfile(os.path.join(a, "patch.diff")):
                out.append(a)
            elif os.path.isdir(a):
                for m in sorted(os.listdir(a)):
                    q = os.path.join(a, m)
                    if os.path.isfile(os.path.join(q, "patch.diff")):
                        out.append(q)
        return out
    for root in ("selftest", "seeded"):
        d = os.path.join(HERE, root)
        if not os.path.isdir(d):
            continue
        for n in sorted(os.listdir(d)):
            p = os.path.join(d, n)
            if os.path.isfile(os.path.join(p, "patch.diff")):
                out.append(p)
            elif os.path.isdir(p):
                for m in sorted(os.listdir(p)):
                    q = os.path.join(p, m)
                    if os.path.isfile(os.path.join(q, "patch.diff")):
                        out.append(q)
    return out


def run_case(c, k):
    env = env_for(k)
    repo, out = env["VERIF_REPO"], env["VERIF_OUT"]
    meta = json.load(open(os.path.join(c, "meta.json")))
    name = os.path.relpath(c, HERE)
    sh("rsync -a --delete --exclude .git %s/ %s/" % (SRC, repo))
    os.makedirs(out, exist_ok=True)
    shutil.copy(os.path.join(HERE, "known_findings.json"), os.path.join(out, "known_findings.json"))
    pd = os.path.join(c, "patch.diff")
    rc, o = sh("git apply " + pd, repo, env)
    if rc != 0:
        # the tree has moved on since the patch was recorded (fix commits): try with fuzz
        sh("rsync -a --delete --exclude .git %s/ %s/" % (SRC, repo))
        rc, o = sh("patch -p1 -F3 --no-backup-if-mismatch -s < " + pd, repo, env)
        sh("find . -name '*.orig' -delete -o -name '*.rej' -delete", repo, env)
    if rc != 0:
        print("%-40s PATCH DOES NOT APPLY" % name, flush=True)
        return {"case": name, "ok": False, "why": "patch does not apply"}
    rcb, outb = sh("go build ./... && go build -tags verif ./...", repo, env)
    got = {}
    failed = []
    t0 = time.time()
    for p in meta["properties"]:
        rc, o = sh("./check " + p, HERE, env)
        viol = [l for l in o.splitlines() if l.startswith("VIOLATION")]
        failed += [l.strip() for l in o.splitlines() if l.startswith("  obligation") or l.startswith("reason:")]
        got[p] = {"exit": rc, "violations": len(viol)}
    secs = time.time() - t0
    if meta["expect"] == "violation":
        ok = any(v["exit"] == 1 and v["violations"] > 0 for v in got.values())
    else:
        ok = all(v["exit"] == 0 and v["violations"] == 0 for v in got.values())
    if rcb != 0:
        ok = False
    lines = ["%-40s %-4s expect=%-9s %s %.0fs" % (name, "ok" if ok else "BAD", meta["expect"], json.dumps(got), secs)]
    for f in failed[:6]:
        lines.append("      " + f[:200])
    if rcb != 0:
        lines.append("      does not build: " + outb[:300])
    print("\n".join(lines), flush=True)
    return {"case": name, "ok": ok, "expect": meta["expect"], "got": got, "failed_obligations": failed, "builds": rcb == 0}


def main():
    global SRC
    sh("rm -rf %s && mkdir -p %s" % (BASE, BASE))
    # the corpus runs against a snapshot of /repo's working tree taken now, so
    # that /repo can be edited while the (long) run is in progress
    sh("rsync -a --exclude .git /repo/ %s/src/" % BASE)
    SRC = BASE + "/src"
    rc, out = sh("cd %s/govc && go build -o ../bin/govc ." % HERE, env=dict(os.environ, GOFLAGS="-mod=mod", GOPROXY="off", GOSUMDB="off", GOTOOLCHAIN="local"))
    if rc != 0:
        print("cannot build govc:\n" + out)
        sys.exit(2)
    cs = cases(sys.argv[1:])
    q = queue.Queue()
    for c in cs:
        q.put(c)
    results = []
    lock = threading.Lock()

    def worker(k):
        while True:
            try:
                c = q.get_nowait()
            except queue.Empty:
                return
            try:
                r = run_case(c, k)
            except Exception as e:  # a broken case must not stop the corpus
                r = {"case": os.path.relpath(c, HERE), "ok": False, "why": "runner error: %s" % e}
                print("%-40s RUNNER ERROR %s" % (r["case"], e), flush=True)
            with lock:
                results.append(r)
                # keep what is known so far: a run that is interrupted loses nothing
                json.dump(sorted(results, key=lambda x: x["case"]), open(os.path.join(HERE, "work", "selftest_partial.json"), "w"), indent=1)

    ths = [threading.Thread(target=worker, args=(k,)) for k in range(min(JOBS, max(1, len(cs))))]
    for t in ths:
        t.start()
    for t in ths:
        t.join()
    sh("rm -rf " + BASE)
    bad = sum(1 for r in results if not r.get("ok"))
    results.sort(key=lambda r: r["case"])
    # RESULTS.json holds the latest result of every case: a run of the whole
    # corpus rewrites it, a run of selected cases replaces just their entries.
    print("%d cases run, %d bad" % (len(results), bad))
    rp = os.path.join(HERE, "selftest", "RESULTS.json")
    if sys.argv[1:] and os.path.exists(rp):
        done = {r["case"] for r in results}
        results = [r for r in json.load(open(rp)) if r["case"] not in done] + results
        results.sort(key=lambda r: r["case"])
    # entries of cases that no longer exist are dropped
    results = [r for r in results if os.path.isfile(os.path.join(HERE, r["case"], "patch.diff"))]
    json.dump(results, open(rp, "w"), indent=1)
    bad_total = sum(1 for r in results if not r.get("ok"))
    print("RESULTS.json: %d cases recorded, %d bad" % (len(results), bad_total))
    return 1 if bad else 0


if __name__ == "__main__":
    sys.exit(main())
