#!/bin/bash
# Runs the setup command and every quick command of MANIFEST.json in sequence (regenerates /verif/evidence).
cd /verif
python3 - <<'PY' > /tmp/runall_cmds.txt
import json
m=json.load(open('/verif/MANIFEST.json'))
if m.get('setup_cmd'): print('SETUP\t'+m['setup_cmd'])
for c in m['checks']:
    print(c['property_id']+'\t'+c['quick_cmd'])
PY
while IFS=$'\t' read -r id cmd; do
  s=$(date +%s)
  out=$(bash -c "$cmd" 2>&1); rc=$?
  e=$(date +%s)
  echo "$id rc=$rc $((e-s))s $(echo "$out" | grep -v '^WARNING' | tail -1)"
  echo "$out" | grep "VIOLATION\|KNOWN-FINDING" | head -20
done < /tmp/runall_cmds.txt
