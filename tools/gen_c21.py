#!/usr/bin/env python3
"""Generates the C21 part of /repo/packets1/zz_contracts_verif.go (Pack
contracts) and /repo/packets1/zz_lemmas_verif.go (ghost round-trip lemma
functions) from a layout table written from MQTT-SN 1.2 section 5.4.

Usage: gen_c21.py > stdout prints two blocks separated by a marker line.
The output is committed to /repo; this script is only a typing aid so that
the 28 contracts stay uniform.
"""

# type, code, constructor call (Go), constructor params (Go decl), legal (spec), fixed fields [(size, spec expr on p)], tail (kind, spec expr on p) or None,
# equality clauses for the lemma (spec, over p and q)
U8, U16 = 1, 2
T = []

def add(name, code, ctor_params, ctor_call, fixed, tail=None, legal="true", post_ctor="", flags=None):
    T.append(dict(name=name, code=code, params=ctor_params, call=ctor_call, fixed=fixed, tail=tail, legal=legal, post=post_ctor))

add("Advertise", 0x00, "gatewayID uint8, duration uint16", "NewAdvertise(gatewayID, duration)",
    [(U8, "p.GatewayID"), (U16, "p.Duration")])
add("SearchGw", 0x01, "radius uint8", "NewSearchGw(radius)", [(U8, "p.Radius")])
add("GwInfo", 0x02, "gatewayID uint8, addr []byte", "NewGwInfo(gatewayID, addr)", [(U8, "p.GatewayID")], ("bytes", "p.GatewayAddress"),
    legal="len(addr) <= 7168")
add("Connect", 0x04, "duration uint16, clientID []byte, will bool, clean bool", "NewConnect(duration, clientID, will, clean)",
    [(U8, "ite(p.Will, uint8(0x08), uint8(0)) | ite(p.CleanSession, uint8(0x04), uint8(0))"), (U8, "p.ProtocolID"), (U16, "p.Duration")], ("bytes", "p.ClientID"),
    legal="len(clientID) >= 1 && len(clientID) <= 7168")
add("Connack", 0x05, "rc ReturnCode", "NewConnack(rc)", [(U8, "uint8(p.ReturnCode)")])
add("WillTopicReq", 0x06, "", "NewWillTopicReq()", [])
add("WillMsgReq", 0x08, "", "NewWillMsgReq()", [])
add("WillMsg", 0x09, "msg []byte", "NewWillMsg(msg)", [], ("bytes", "p.WillMsg"), legal="len(msg) <= 7168")
add("Register", 0x0A, "topicID uint16, name string, msgID uint16", "NewRegister(topicID, name)",
    [(U16, "p.TopicID"), (U16, "p.messageID")], ("str", "p.TopicName"), legal="len(name) >= 1 && len(name) <= 7168", post_ctor="p.SetMessageID(msgID)")
add("Regack", 0x0B, "topicID uint16, rc ReturnCode, msgID uint16", "NewRegack(topicID, rc)",
    [(U16, "p.TopicID"), (U16, "p.messageID"), (U8, "uint8(p.ReturnCode)")], post_ctor="p.SetMessageID(msgID)")
add("Publish", 0x0C, "topicID uint16, data []byte, dup bool, qos uint8, retain bool, tit uint8, msgID uint16",
    "NewPublish(topicID, data, dup, qos, retain, tit)",
    [(U8, "ite(p.dup, uint8(0x80), uint8(0)) | ((p.QOS << 5) & 0x60) | ite(p.Retain, uint8(0x10), uint8(0)) | (p.TopicIDType & 0x03)"), (U16, "p.TopicID"), (U16, "p.messageID")],
    ("bytes", "p.Data"), legal="len(data) <= 7168 && qos <= 3 && tit <= 3", post_ctor="p.SetMessageID(msgID)")
add("Puback", 0x0D, "topicID uint16, rc ReturnCode, msgID uint16", "NewPuback(topicID, rc)",
    [(U16, "p.TopicID"), (U16, "p.messageID"), (U8, "uint8(p.ReturnCode)")], post_ctor="p.SetMessageID(msgID)")
add("Pubcomp", 0x0E, "msgID uint16", "NewPubcomp()", [(U16, "p.messageID")], post_ctor="p.SetMessageID(msgID)")
add("Pubrec", 0x0F, "msgID uint16", "NewPubrec()", [(U16, "p.messageID")], post_ctor="p.SetMessageID(msgID)")
add("Pubrel", 0x10, "msgID uint16", "NewPubrel()", [(U16, "p.messageID")], post_ctor="p.SetMessageID(msgID)")
add("Suback", 0x13, "topicID uint16, rc ReturnCode, qos uint8, msgID uint16", "NewSuback(topicID, rc, qos)",
    [(U8, "(p.QOS << 5) & 0x60"), (U16, "p.TopicID"), (U16, "p.messageID"), (U8, "uint8(p.ReturnCode)")], legal="qos <= 3", post_ctor="p.SetMessageID(msgID)")
add("Unsuback", 0x15, "msgID uint16", "NewUnsuback()", [(U16, "p.messageID")], post_ctor="p.SetMessageID(msgID)")
add("Pingreq", 0x16, "clientID []byte", "NewPingreq(clientID)", [], ("bytes", "p.ClientID"), legal="len(clientID) <= 7168")
add("Pingresp", 0x17, "", "NewPingresp()", [])
add("WillTopicResp", 0x1B, "rc ReturnCode", "NewWillTopicResp(rc)", [(U8, "uint8(p.ReturnCode)")])
add("WillMsgUpd", 0x1C, "msg []byte", "NewWillMsgUpd(msg)", [], ("bytes", "p.WillMsg"), legal="len(msg) <= 7168")
add("WillMsgResp", 0x1D, "rc ReturnCode", "NewWillMsgResp(rc)", [(U8, "uint8(p.ReturnCode)")])

FIELDS = {  # fields compared by the round-trip lemma: (name, kind)
    "Advertise": [("GatewayID", "v"), ("Duration", "v")], "SearchGw": [("Radius", "v")], "GwInfo": [("GatewayID", "v"), ("GatewayAddress", "b")],
    "Connect": [("Will", "v"), ("CleanSession", "v"), ("ProtocolID", "v"), ("Duration", "v"), ("ClientID", "b")], "Connack": [("ReturnCode", "v")],
    "WillTopicReq": [], "WillMsgReq": [], "WillMsg": [("WillMsg", "b")], "Register": [("TopicID", "v"), ("messageID", "v"), ("TopicName", "v")],
    "Regack": [("TopicID", "v"), ("messageID", "v"), ("ReturnCode", "v")],
    "Publish": [("dup", "v"), ("QOS", "v"), ("Retain", "v"), ("TopicIDType", "v"), ("TopicID", "v"), ("messageID", "v"), ("Data", "b")],
    "Puback": [("TopicID", "v"), ("messageID", "v"), ("ReturnCode", "v")], "Pubcomp": [("messageID", "v")], "Pubrec": [("messageID", "v")],
    "Pubrel": [("messageID", "v")], "Suback": [("QOS", "v"), ("TopicID", "v"), ("messageID", "v"), ("ReturnCode", "v")], "Unsuback": [("messageID", "v")],
    "Pingreq": [("ClientID", "b")], "Pingresp": [], "WillTopicResp": [("ReturnCode", "v")], "WillMsgUpd": [("WillMsg", "b")], "WillMsgResp": [("ReturnCode", "v")],
    # hand-written Pack contracts, generated lemmas:
    "Auth": [("Reason", "v"), ("Method", "v"), ("Data", "b")], "Disconnect": [("Duration", "v")],
    "WillTopic": [("WillTopic", "v")], "WillTopicUpd": [("WillTopic", "v")],
    "Subscribe": [("dup", "v"), ("QOS", "v"), ("TopicIDType", "v"), ("messageID", "v")],
    "Unsubscribe": [("TopicIDType", "v"), ("messageID", "v")],
}

EXTRA_LEMMAS = [  # name, params, legal, call, post, extra ensures (spec)
    ("Auth", "user string, password []byte", "len(user) <= 255 && len(password) <= 6000", "NewAuthPlain(user, password)", "", []),
    ("Disconnect", "duration uint16", "true", "NewDisconnect(duration)", "", []),
    ("WillTopic", "topic string, qos uint8, retain bool", "len(topic) <= 7168 && qos <= 3", "NewWillTopic(topic, qos, retain)", "",
     ["len(topic) > 0 ==> q.QOS == p.QOS && q.Retain == p.Retain"]),
    ("WillTopicUpd", "topic string, qos uint8, retain bool", "len(topic) <= 7168 && qos <= 3", "NewWillTopicUpd(topic, qos, retain)", "",
     ["len(topic) > 0 ==> q.QOS == p.QOS && q.Retain == p.Retain"]),
    ("Subscribe", "name string, topicID uint16, dup bool, qos uint8, tit uint8, msgID uint16",
     "qos <= 3 && tit <= 2 && (tit == 0 ==> len(name) >= 1 && len(name) <= 7168) && (tit != 0 ==> len(name) == 0) && (tit == 0 ==> topicID == 0)",
     "NewSubscribe(name, topicID, dup, qos, tit)", "p.SetMessageID(msgID)", ["q.TopicID == p.TopicID && q.TopicName == p.TopicName"]),
    ("Unsubscribe", "name string, topicID uint16, tit uint8, msgID uint16",
     "tit <= 2 && (tit == 0 ==> len(name) >= 1 && len(name) <= 7168) && (tit != 0 ==> len(name) == 0) && (tit == 0 ==> topicID == 0)",
     "NewUnsubscribe(name, topicID, tit)", "p.SetMessageID(msgID)", ["q.TopicID == p.TopicID && q.TopicName == p.TopicName"]),
]


def pack_contract(t):
    F = sum(sz for sz, _ in t["fixed"])
    out = []
    out.append("//@ func (*%s).Pack" % t["name"])
    out.append("//@   nopanic [C21]")
    if t["tail"]:
        kind, te = t["tail"]
        out.append("//@   requires [C21,C23] fits: len(%s) <= %d" % (te, 65531 - F))
        out.append("//@   assigns p.Header.pktLength")
        out.append("//@   let n = %d + len(%s)" % (F, te))
    else:
        out.append("//@   requires [C21,C23] hdr_set: p.Header.pktLength == %d" % (F + 2))
        out.append("//@   let n = %d" % F)
    out.append("//@   ensures [C21] ok: result1 == nil && fresh(result0)")
    out.append("//@   ensures [C21] len: len(result0) == n + encHdr(n)")
    out.append("//@   ensures [C21] hdr: hdrOK(result0, n, uint8(p.Header.pktType))")
    off = 0
    for k, (sz, e) in enumerate(t["fixed"]):
        if sz == 1:
            out.append("//@   ensures [C21] f%d: result0[encHdr(n)+%d] == %s" % (k, off, e))
        else:
            out.append("//@   ensures [C21] f%d: be16(result0, encHdr(n)+%d) == %s" % (k, off, e))
        off += sz
    if t["tail"]:
        kind, te = t["tail"]
        out.append("//@   ensures [C21] tail: forall i int :: 0 <= i && i < len(%s) ==> result0[encHdr(n)+%d+i] == %s[i]" % (te, F, te))
    return "\n".join(out)


def lemma(name, params, legal, call, post, extra):
    fields = FIELDS[name]
    go = []
    go.append("func lemmaRoundtrip%s(%s) (p, q *%s, b []byte) {" % (name, params, name))
    go.append("\tp = %s" % call)
    if post:
        go.append("\t" + post)
    go.append("\tb, _ = p.Pack()")
    go.append("\tq = lemmaDecode(b).(*%s)" % name)
    go.append("\treturn")
    go.append("}")
    con = []
    con.append("//@ func lemmaRoundtrip%s" % name)
    con.append("//@   nopanic [C21]")
    con.append("//@   requires [C21] legal: %s" % legal)
    eqs = []
    for f, k in fields:
        if k == "v":
            eqs.append("q.%s == p.%s" % (f, f))
        else:
            eqs.append("bytesEq(q.%s, p.%s)" % (f, f))
    if eqs:
        con.append("//@   ensures [C21] same_fields: " + " && ".join(eqs))
    for i, e in enumerate(extra):
        con.append("//@   ensures [C21] same_extra%d: %s" % (i, e))
    con.append("//@   ensures [C21] length_field: lenFieldOK(b)")
    return "\n".join(go), "\n".join(con)


ACCEPTS = {
    "Advertise": "len(buf) == 3", "SearchGw": "len(buf) == 1", "GwInfo": "len(buf) >= 1", "Connect": "len(buf) >= 5 && buf[1] == 1",
    "Connack": "len(buf) == 1", "WillTopicReq": "len(buf) == 0", "WillMsgReq": "len(buf) == 0", "WillMsg": "true", "Register": "len(buf) >= 5",
    "Regack": "len(buf) == 5", "Publish": "len(buf) >= 5", "Puback": "len(buf) == 5", "Pubcomp": "len(buf) == 2", "Pubrec": "len(buf) == 2",
    "Pubrel": "len(buf) == 2", "Suback": "len(buf) == 6", "Unsuback": "len(buf) == 2", "Pingreq": "true", "Pingresp": "true",
    "WillTopicResp": "len(buf) == 1", "WillMsgUpd": "true", "WillMsgResp": "len(buf) == 1",
    "Auth": "len(buf) >= 2 && len(buf) >= 2 + int(buf[1])", "Disconnect": "len(buf) == 0 || len(buf) == 2",
    "WillTopic": "len(buf) == 0 || len(buf) >= 2", "WillTopicUpd": "len(buf) == 0 || len(buf) >= 2",
    "Subscribe": "len(buf) >= 4 && (fTIT(buf[0]) == 0 || (fTIT(buf[0]) != 3 && len(buf) == 5))",
    "Unsubscribe": "len(buf) >= 4 && (fTIT(buf[0]) == 0 || (fTIT(buf[0]) != 3 && len(buf) == 5))",
}

SPECIAL_PACKS = """//@ func (*Auth).Pack
//@   nopanic [C21]
//@   requires [C21,C23] fits: len(p.Method) <= 255 && len(p.Data) <= 65000
//@   assigns p.Header.pktLength
//@   let n = 2 + len(p.Method) + len(p.Data)
//@   ensures [C21] ok: result1 == nil && fresh(result0)
//@   ensures [C21] len: len(result0) == n + encHdr(n)
//@   ensures [C21] hdr: hdrOK(result0, n, uint8(p.Header.pktType))
//@   ensures [C21] f0: result0[encHdr(n)] == p.Reason
//@   ensures [C21] f1: result0[encHdr(n)+1] == uint8(len(p.Method))
//@   ensures [C21] method: forall i int :: 0 <= i && i < len(p.Method) ==> result0[encHdr(n)+2+i] == p.Method[i]
//@   ensures [C21] tail: forall i int :: 0 <= i && i < len(p.Data) ==> result0[encHdr(n)+2+len(p.Method)+i] == p.Data[i]
//@ func (*Disconnect).Pack
//@   nopanic [C21]
//@   assigns p.Header.pktLength
//@   let n = ite(p.Duration == 0, 0, 2)
//@   ensures [C21] ok: result1 == nil && fresh(result0)
//@   ensures [C21] len: len(result0) == n + encHdr(n)
//@   ensures [C21] hdr: hdrOK(result0, n, uint8(p.Header.pktType))
//@   ensures [C21] f0: p.Duration != 0 ==> be16(result0, 2) == p.Duration
//@ func (*WillTopic).Pack
//@   nopanic [C21]
//@   requires [C21,C23] fits: len(p.WillTopic) <= 65530
//@   assigns p.Header.pktLength
//@   let n = ite(len(p.WillTopic) == 0, 0, 1 + len(p.WillTopic))
//@   ensures [C21] ok: result1 == nil && fresh(result0)
//@   ensures [C21] len: len(result0) == n + encHdr(n)
//@   ensures [C21] hdr: hdrOK(result0, n, uint8(p.Header.pktType))
//@   ensures [C21] f0: n > 0 ==> result0[encHdr(n)] == ((p.QOS << 5) & 0x60) | ite(p.Retain, uint8(0x10), uint8(0))
//@   ensures [C21] tail: forall i int :: 0 <= i && i < len(p.WillTopic) ==> result0[encHdr(n)+1+i] == p.WillTopic[i]
//@ func (*WillTopicUpd).Pack
//@   nopanic [C21]
//@   requires [C21,C23] fits: len(p.WillTopic) <= 65530
//@   assigns p.Header.pktLength
//@   let n = ite(len(p.WillTopic) == 0, 0, 1 + len(p.WillTopic))
//@   ensures [C21] ok: result1 == nil && fresh(result0)
//@   ensures [C21] len: len(result0) == n + encHdr(n)
//@   ensures [C21] hdr: hdrOK(result0, n, uint8(p.Header.pktType))
//@   ensures [C21] f0: n > 0 ==> result0[encHdr(n)] == ((p.QOS << 5) & 0x60) | ite(p.Retain, uint8(0x10), uint8(0))
//@   ensures [C21] tail: forall i int :: 0 <= i && i < len(p.WillTopic) ==> result0[encHdr(n)+1+i] == p.WillTopic[i]
//@ func (*Subscribe).Pack
//@   nopanic [C21]
//@   requires [C21,C23] fits: len(p.TopicName) <= 65528
//@   assigns p.Header.pktLength
//@   let n = 3 + ite(p.TopicIDType == 0, len(p.TopicName), ite(p.TopicIDType == 3, 0, 2))
//@   ensures [C21] ok: result1 == nil && fresh(result0)
//@   ensures [C21] len: len(result0) == n + encHdr(n)
//@   ensures [C21] hdr: hdrOK(result0, n, uint8(p.Header.pktType))
//@   ensures [C21] f0: result0[encHdr(n)] == ite(p.dup, uint8(0x80), uint8(0)) | ((p.QOS << 5) & 0x60) | (p.TopicIDType & 0x03)
//@   ensures [C21] f1: be16(result0, encHdr(n)+1) == p.messageID
//@   ensures [C21] f2: (p.TopicIDType == 1 || p.TopicIDType == 2) ==> be16(result0, encHdr(n)+3) == p.TopicID
//@   ensures [C21] tail: p.TopicIDType == 0 ==> (forall i int :: 0 <= i && i < len(p.TopicName) ==> result0[encHdr(n)+3+i] == p.TopicName[i])
//@ func (*Unsubscribe).Pack
//@   nopanic [C21]
//@   requires [C21,C23] fits: len(p.TopicName) <= 65528
//@   assigns p.Header.pktLength
//@   let n = 3 + ite(p.TopicIDType == 0, len(p.TopicName), ite(p.TopicIDType == 3, 0, 2))
//@   ensures [C21] ok: result1 == nil && fresh(result0)
//@   ensures [C21] len: len(result0) == n + encHdr(n)
//@   ensures [C21] hdr: hdrOK(result0, n, uint8(p.Header.pktType))
//@   ensures [C21] f0: result0[encHdr(n)] == (p.TopicIDType & 0x03)
//@   ensures [C21] f1: be16(result0, encHdr(n)+1) == p.messageID
//@   ensures [C21] f2: (p.TopicIDType == 1 || p.TopicIDType == 2) ==> be16(result0, encHdr(n)+3) == p.TopicID
//@   ensures [C21] tail: p.TopicIDType == 0 ==> (forall i int :: 0 <= i && i < len(p.TopicName) ==> result0[encHdr(n)+3+i] == p.TopicName[i])"""

HEADER = """
//@ spec encHdr(n int) int = ite(n + 2 <= 255, 2, 4)
//@ spec hdrOK(out []byte, n int, typ uint8) bool = ite(n + 2 <= 255, out[0] == uint8(n + 2) && out[1] == typ,
//@      out[0] == 1 && be16(out, 1) == uint16(n + 4) && out[3] == typ)
//@ spec lenFieldOK(b []byte) bool = len(b) >= 2 && ite(len(b) <= 255, int(b[0]) == len(b), b[0] == 1 && int(be16(b, 1)) == len(b))
//@ inline lemmaDecode
"""

def main():
    print(HEADER)
    for name in sorted(ACCEPTS):
        print("//@ func (*%s).Unpack" % name)
        print("//@   ensures [C21] accepts: %s ==> result == nil" % ACCEPTS[name])
    print(SPECIAL_PACKS)
    inl = ["computeLength", "encodeFlags"]
    print("// ---- C21: Pack contracts (generated by /verif/tools/gen_c21.py from the MQTT-SN 1.2 layout table) ----")
    for t in T:
        print(pack_contract(t))
    print("// ---- C21: round-trip lemmas ----")
    gos = []
    for t in T:
        g, c = lemma(t["name"], t["params"], t["legal"], t["call"], t["post"], [])
        gos.append(g)
        print(c)
    for name, params, legal, call, post, extra in EXTRA_LEMMAS:
        g, c = lemma(name, params, legal, call, post, extra)
        gos.append(g)
        print(c)
    print("=====GO=====")
    print("\n\n".join(gos))


if __name__ == "__main__":
    main()
