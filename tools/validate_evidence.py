#!/usr/bin/env python3
"""Validate every /verif/evidence/<id>.json named in MANIFEST.json against
/root/.vp/EVIDENCE.schema.json plus the proof-level rule discharged ==
obligations, violations == 0.  Run before committing evidence:
    python3-vt tools/validate_evidence.py
Exit 1 if any file is missing or invalid."""
import json, os, sys
import jsonschema

HERE = os.path.dirname(os.path.dirname(os.path.abspath(__file__)))
schema = json.load(open("/root/.vp/EVIDENCE.schema.json"))
man = json.load(open(os.path.join(HERE, "MANIFEST.json")))
bad = 0
for c in man["checks"]:
    pid, path = c["property_id"], c["evidence_file"]
    try:
        ev = json.load(open(path))
    except Exception as e:
        print("%s: cannot read %s: %s" % (pid, path, e)); bad += 1; continue
    errs = [e.message[:200] for e in jsonschema.Draft202012Validator(schema).iter_errors(ev)]
    cov = ev.get("coverage", {})
    if ev.get("property_id") != pid:
        errs.append("property_id %r" % ev.get("property_id"))
    if ev.get("level") != c["level_claimed"]["category"]:
        errs.append("level %r != claimed %r" % (ev.get("level"), c["level_claimed"]["category"]))
    if ev.get("level") == "proof" and cov.get("discharged") != cov.get("obligations"):
        errs.append("discharged %r != obligations %r" % (cov.get("discharged"), cov.get("obligations")))
    if ev.get("violations"):
        errs.append("violations = %r" % ev["violations"])
    if errs:
        bad += 1
    print("%s: %s" % (pid, "ok (%s obligations, tier %s, seed %s)" % (cov.get("obligations"), ev.get("tier"), ev.get("seed")) if not errs else "; ".join(errs)))
sys.exit(1 if bad else 0)
