#!/usr/bin/env python3
"""unsat core of a govc query: names every assertion and asks z3 for the core"""
import sys,re,subprocess
src=open(sys.argv[1]).read().split('\n')
out=[];names={};n=0
for l in src:
    if l.startswith('(assert '):
        n+=1; nm='a%d'%n; names[nm]=l
        out.append('(assert (! %s :named %s))'%(l[len('(assert '):-1],nm))
    elif l.startswith('(check-sat'):
        out.append('(check-sat)\n(get-unsat-core)')
    elif l.startswith('(set-option :produce-models'):
        out.append('(set-option :produce-unsat-cores true)')
    else: out.append(l)
open('/tmp/core.smt2','w').write('\n'.join(out))
r=subprocess.run(['z3-new','-t:20000','/tmp/core.smt2'],capture_output=True,text=True).stdout
print(r[:200])
lines=r.split('\n')
if len(lines)>1:
    for nm in re.findall(r'a\d+', lines[1]):
        print(nm, names[nm][:int(sys.argv[2]) if len(sys.argv)>2 else 500])
