#!/bin/bash
# Runs every thorough command of MANIFEST.json in sequence, with evidence written to a scratch directory.
cd /verif
python3 - <<'PY' > /tmp/runall_t_cmds.txt
import json
m=json.load(open('/verif/MANIFEST.json'))
for c in m['checks']:
    print(c['property_id']+'\t'+c['thorough_cmd'])
PY
while IFS=$'\t' read -r id cmd; do
  s=$(date +%s)
  out=$(VERIF_OUT=/tmp/ev_thorough bash -c "$cmd" 2>&1); rc=$?
  e=$(date +%s)
  echo "$id rc=$rc $((e-s))s $(echo "$out" | grep -v '^WARNING' | tail -1)"
  echo "$out" | grep "VIOLATION" | head -20
done < /tmp/runall_t_cmds.txt
