#!/usr/bin/env python3
"""Regenerates /verif/MANIFEST.json from the tables below (kept next to the
checks so the manifest never drifts from what is built)."""
import json, os

HERE = os.path.dirname(os.path.dirname(os.path.abspath(__file__)))

TECH = "contract-based deductive verification: go/ssa symbolic execution (govc) -> SMT (z3 5.1/4.8, cvc5), obligations per function under contract"

# id -> (level text, level note, design ref)
CLAIMED = {
    "C20": ("Proof for all datagram lengths and contents: every index/slice/nil/type-assertion panic condition of ReadPacket, Header.Unpack, NewPacketWithHeader and all 28 (*T).Unpack is an obligation discharged by SMT over bit-vector semantics; ReadPacket uses its callees' contracts only.",
            "Trusted: io.Reader.Read contract (0<=n<=len(p) on success), fmt.Errorf, encoding/binary, go/ssa lowering and govc's encoding, SMT solvers. String() methods reached only through logging are not covered (A-LOG).",
            "6.A C20"),
}

CLAIMED["C22"] = ("Proof for all accepted datagrams: Header.Unpack returns the header length and type found on the wire, every (*T).Unpack sets each field to the bytes at its MQTT-SN 1.2 position (28 postconditions written from the specification), and ReadPacket hands exactly the bytes after the actual header to the decoder of the type found at its position (site assertions).",
            "Trusted: io.Reader.Read contract, encoding/binary.BigEndian, go/ssa lowering, govc encoding, SMT solvers. Re-encoding equality follows from these field postconditions together with the C21 Pack contracts; it is not a separate obligation.",
            "6.A C22")
CLAIMED["C21"] = ("Proof for all legal field values: every Pack is verified against a byte-level encoding written from the specification (header form, length field, field offsets, quantified payload clause), SetVarPartLength against the 255 boundary, and 28 ghost round-trip lemma functions (construct, Pack, decode) are verified from those contracts; the short-topic encoding is proved a bijection for all 65536 IDs and all 2-byte names.",
            "The decode step of the lemmas mirrors ReadPacket's body (Header.Unpack, NewPacketWithHeader, Unpack of the bytes after the header); ReadPacket's own glue is C22's. Small helpers (computeLength, encodeFlags, PackToBuffer, EncodeUint16, constructors) are inlined, not contracted. bytes.Buffer is a trusted append-only model.",
            "6.A C21")

NA = {
    "C10": "real-time liveness (session ends within 5 s + poll) across timers, goroutines and context cancellation: no per-call contract expresses elapsed time",
    "C12": "timed histories (a broker packet in every 1.5x keep-alive window): needs a clock and an environment model, not a per-call contract",
    "C26": "two-party whole-history refinement of client against gateway: contracts of one side could only be assumed by the other (proving a model of the peer)",
    "C28": "termination/liveness of blocking API calls and goroutine exit: not expressible as pre/postconditions of one call",
    "C33": "ticker/channel timing and interleavings of the keep-alive loop: schedules and elapsed time are abstracted by the technique",
    "C34": "real-time liveness against an assumed broker: needs timed environment model",
}

PENDING = {}  # id -> reason (filled below for every property neither claimed nor N/A)


def main():
    props = [json.loads(l) for l in open(os.path.join(HERE, "properties.jsonl"))]
    ids = [p["id"] for p in props]
    checks = []
    for i in ids:
        if i in CLAIMED:
            text, note, ref = CLAIMED[i]
            checks.append({
                "property_id": i,
                "quick_cmd": "./check %s" % i,
                "thorough_cmd": "./check %s --thorough" % i,
                "evidence_file": "/verif/evidence/%s.json" % i,
                "replay_cmd_template": "./check %s --replay {path}" % i,
                "engine": "govc",
                "level_claimed": {"category": "proof", "text": text, "design_ref": "DESIGN.md " + ref},
                "level_note": note,
                "technique": TECH,
            })
    na = []
    for i in ids:
        if i in CLAIMED:
            continue
        if i in NA:
            na.append({"property_id": i, "reason": NA[i]})
        else:
            na.append({"property_id": i, "reason": PENDING.get(i, "contracts for this property are not yet written/discharging in this build of /verif (see DESIGN.md section 6 for the plan); not claimed until its check exists")})
    man = {
        "version": 1,
        "setup_cmd": "cd /verif/govc && GOFLAGS=-mod=mod GOPROXY=off GOSUMDB=off GOTOOLCHAIN=local go build -o /verif/bin/govc .",
        "hooks": {
            "guard": "verif",
            "enable": "-tags verif (comment-only contract files zz_contracts_verif.go and ghost lemma files zz_lemmas_verif.go; govc loads /repo with -tags=verif and also reads the //@ comments directly)",
            "baseline_off_cmd": "cd /repo && go test -vet=off -count=1 -timeout 25m ./...",
            "source_commits": json.load(open(os.path.join(HERE, "tools", "hook_commits.json"))),
            "add_only": True,
        },
        "engines": [{"name": "govc", "path": "/verif/govc", "serves_properties": sorted(CLAIMED), "kind_free_text": "deductive verifier for Go built here: contracts as //@ comments in /repo, VCs from go/ssa by forward symbolic execution with callee contracts and loop invariants, discharged by z3/cvc5, counterexamples replayed with go test -overlay"}],
        "checks": checks,
        "not_applicable": na,
        "notes": "All checks rebuild from /repo's working tree on every run (govc loads the packages with go/packages). known_findings.json lists recorded findings and fixed defects.",
    }
    json.dump(man, open(os.path.join(HERE, "MANIFEST.json"), "w"), indent=1)
    print("wrote MANIFEST.json: %d checks, %d not_applicable" % (len(checks), len(na)))


if __name__ == "__main__":
    main()
