#!/usr/bin/env python3
"""Regenerates /verif/MANIFEST.json from tools/claims.json (claimed checks and
not-applicable reasons) so the manifest never drifts from what is built."""
import json, os

HERE = os.path.dirname(os.path.dirname(os.path.abspath(__file__)))

TECH = "contract-based deductive verification: go/ssa symbolic execution (govc) -> SMT (z3 5.1/4.8, cvc5), obligations per function under contract"


def main():
    claims = json.load(open(os.path.join(HERE, "tools", "claims.json")))
    CLAIMED, NA, PENDING = claims["claimed"], claims["not_applicable"], claims.get("pending", {})
    props = [json.loads(l) for l in open(os.path.join(HERE, "properties.jsonl"))]
    ids = [p["id"] for p in props]
    checks = []
    for i in ids:
        if i in CLAIMED:
            c = CLAIMED[i]
            checks.append({
                "property_id": i,
                "quick_cmd": "./check %s" % i,
                "thorough_cmd": "./check %s --thorough" % i,
                "evidence_file": "/verif/evidence/%s.json" % i,
                "replay_cmd_template": "./check %s --replay {path}" % i,
                "engine": "govc",
                "level_claimed": {"category": "proof", "text": c["text"], "design_ref": "DESIGN.md " + c["ref"]},
                "level_note": c["note"],
                "technique": TECH,
            })
    na = []
    for i in ids:
        if i in CLAIMED:
            continue
        if i in NA:
            na.append({"property_id": i, "reason": NA[i]})
        else:
            na.append({"property_id": i, "reason": PENDING.get(i, "contracts for this property are not yet written/discharging in this build of /verif (see DESIGN.md section 6 for the plan); not claimed until its check exists")})
    man = {
        "version": 1,
        "setup_cmd": "cd /verif/govc && GOFLAGS=-mod=mod GOPROXY=off GOSUMDB=off GOTOOLCHAIN=local go build -o /verif/bin/govc .",
        "hooks": {
            "guard": "verif",
            "enable": "-tags verif (comment-only contract files zz_contracts_verif.go and ghost lemma files zz_lemmas_verif.go; govc loads /repo with -tags=verif and also reads the //@ comments directly)",
            "baseline_off_cmd": "cd /repo && go test -vet=off -count=1 -timeout 25m ./...",
            "source_commits": json.load(open(os.path.join(HERE, "tools", "hook_commits.json"))),
            "add_only": True,
        },
        "engines": [{"name": "govc", "path": "/verif/govc", "serves_properties": sorted(CLAIMED), "kind_free_text": "deductive verifier for Go built here: contracts as //@ comments in /repo, VCs from go/ssa by forward symbolic execution with callee contracts and loop invariants, discharged by z3/cvc5, counterexamples replayed with go test -overlay"}],
        "checks": checks,
        "not_applicable": na,
        "notes": "All checks rebuild from /repo's working tree on every run (govc loads the packages with go/packages). known_findings.json lists recorded findings and fixed defects.",
    }
    json.dump(man, open(os.path.join(HERE, "MANIFEST.json"), "w"), indent=1)
    print("wrote MANIFEST.json: %d checks, %d not_applicable" % (len(checks), len(na)))


if __name__ == "__main__":
    main()
