#!/usr/bin/env python3
"""Confirms a property-breaking change produced by an independent sub-agent and
files it under /verif/seeded/<ID>/<n>/.

  tools/adopt_seed.py <ID> <n> <srcdir> <pkgdir> <run-regex> [<demo-file> ...]

In a scratch worktree of /repo's HEAD (under /tmp, removed afterwards):
  1. the patch applies and `go build ./...` succeeds,
  2. the whole existing test suite passes with the patch,
  3. the demonstration (copied into <pkgdir>) FAILS with the patch,
  4. the demonstration PASSES without it.
Only then the case is written (patch.diff re-taken from the worktree, the
demonstration, notes.md, meta.json)."""
import json, os, shutil, subprocess, sys, glob

ENV = dict(os.environ, GOFLAGS="-mod=mod", GOPROXY="off", GOSUMDB="off", GOTOOLCHAIN="local")


def sh(cmd, cwd=None, timeout=1800):
    p = subprocess.run(cmd, shell=True, cwd=cwd, env=ENV, stdout=subprocess.PIPE, stderr=subprocess.STDOUT, text=True, errors="replace", timeout=timeout)
    return p.returncode, p.stdout


def main():
    pid, n, src, pkgdir, rx = sys.argv[1:6]
    demos = sys.argv[6:] or [os.path.basename(p) for p in glob.glob(os.path.join(src, "*_test.go"))]
    wt = "/tmp/adopt/%s_%s" % (pid, n)
    sh("git -C /repo worktree remove --force %s; rm -rf %s; mkdir -p /tmp/adopt" % (wt, wt))
    rc, o = sh("git -C /repo worktree add --detach %s HEAD" % wt)
    assert rc == 0, o
    log = {}
    try:
        rc, o = sh("git apply %s/patch.diff" % src, wt)
        if rc != 0:
            rc, o = sh("patch -p1 -F3 --no-backup-if-mismatch -s < %s/patch.diff" % src, wt)
            sh("find . -name '*.orig' -delete -o -name '*.rej' -delete", wt)
        if rc != 0:
            print("%s/%s: PATCH DOES NOT APPLY\n%s" % (pid, n, o[:500]))
            return 1
        _, diff = sh("git diff", wt)
        rc, o = sh("go build ./...", wt)
        if rc != 0:
            print("%s/%s: does not build\n%s" % (pid, n, o[:500]))
            return 1
        rc, o = sh("go test -vet=off -count=1 -timeout 25m ./...", wt)
        log["suite_with_patch"] = "pass" if rc == 0 else "FAIL"
        if rc != 0:
            print("%s/%s: existing suite FAILS with the patch\n%s" % (pid, n, o[-1500:]))
            return 1
        for d in demos:
            shutil.copy(os.path.join(src, d), os.path.join(wt, pkgdir, "zz_seed_" + d))
        cmd = "go test -vet=off -count=1 -timeout 300s -run '%s' ./%s/" % (rx, pkgdir)
        rc, o = sh(cmd, wt)
        log["demo_with_patch"] = "fail" if rc != 0 else "PASS"
        demo_out = o[-3000:]
        if rc == 0 or "no tests to run" in o:
            print("%s/%s: demonstration does NOT fail with the patch\n%s" % (pid, n, o[-800:]))
            return 1
        # without the patch
        sh("git diff > /tmp/adopt/%s_%s.diff && git apply -R /tmp/adopt/%s_%s.diff" % (pid, n, pid, n), wt)
        rc, o = sh(cmd, wt)
        log["demo_without_patch"] = "pass" if rc == 0 else "FAIL"
        if rc != 0 or "no tests to run" in o:
            print("%s/%s: demonstration does not pass on the unchanged tree\n%s" % (pid, n, o[-1500:]))
            return 1
        dst = "/verif/seeded/%s/%s" % (pid, n)
        os.makedirs(dst, exist_ok=True)
        open(os.path.join(dst, "patch.diff"), "w").write(diff)
        for d in demos:
            shutil.copy(os.path.join(src, d), os.path.join(dst, d))
        if os.path.exists(os.path.join(src, "notes.md")):
            shutil.copy(os.path.join(src, "notes.md"), os.path.join(dst, "notes.md"))
        open(os.path.join(dst, "demo_output.txt"), "w").write(demo_out)
        _, head = sh("git -C /repo rev-parse --short HEAD")
        files = sorted({l[6:] for l in diff.splitlines() if l.startswith("+++ b/")})
        meta = {"property": pid, "n": int(n) if n.isdigit() else n, "origin": "independent sub-agent given only the property text and a scratch worktree",
                "files": files, "properties": [pid], "expect": "violation",
                "needs_to_manifest": "see notes.md",
                "confirmed_at_repo_commit": head.strip(),
                "what_was_run": {"apply+build": "ok", "go test -vet=off -count=1 ./... (with the change)": log["suite_with_patch"],
                                 "demo with the change": log["demo_with_patch"], "demo without the change": log["demo_without_patch"]},
                "demo_cmd": "cp %s %s/ && %s" % (" ".join(demos), pkgdir, cmd)}
        json.dump(meta, open(os.path.join(dst, "meta.json"), "w"), indent=1)
        print("%s/%s: confirmed and filed (%s)" % (pid, n, ", ".join(files)))
        return 0
    finally:
        sh("git -C /repo worktree remove --force %s; rm -rf %s /tmp/adopt/%s_%s.diff" % (wt, wt, pid, n))


if __name__ == "__main__":
    sys.exit(main())
