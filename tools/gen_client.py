#!/usr/bin/env python3
"""Generates /repo/client/zz_tx_contracts_verif.go: contracts of the client library's
exchanges (seven near-identical retry transactions: constructor, retry closure,
completion closure) and of the methods that complete them."""
P = '/repo/client/zz_tx_contracts_verif.go'
out = []
w = out.append
PKTLEN = ', '.join('lastPkt.(*pkts1.%s).Header.pktLength' % t for t in ['GwInfo', 'Connect', 'WillMsg', 'Register', 'Publish', 'Pingreq', 'WillMsgUpd', 'Auth', 'WillTopic', 'WillTopicUpd', 'Subscribe', 'Unsubscribe', 'Disconnect'])
ST = lambda k: 'box(transactionState, %d)' % k

w('''// ---- the client's exchanges (C06, C17, C25) ----
// transactionState: 0 done, 1 awaitingPuback, 2 awaitingPubrec, 3 awaitingPubrel, 4 awaitingPubcomp, 5 awaitingDisconnect, 6 awaitingPingresp.
// Every exchange built on transaction{*RetryTransaction, client} belongs to its client and has a usable retry transaction.
//@ pred ctxWF(c *Client, t *transaction) = t != nil && t.client == c && t.RetryTransaction != nil && retryCfg(t.RetryTransaction)
// What an exchange holds for retransmission is the packet its API call has just sent (or, for QoS 2, the PUBREL sent by Pubrec).
//@ assumption [C17,C25] A-RETRYDATA: the retry callback of a client exchange is invoked with the data last given to Proceed (contract retry_same_data of RetryTransaction.timeout, C19), which the entry invariant of the client's transaction store constrains; the link callback-argument = stored data is A-CALLBACK
''')

# name, constructor params beyond client, closure key style, delete call, data type (None = any client packet), dup
TX = [
    ('registerTransaction', 'newRegisterTransaction', 'Delete', 'Register', False),
    ('subscribeTransaction', 'newSubscribeTransaction', 'Delete', 'Subscribe', True),
    ('unsubscribeTransaction', 'newUnsubscribeTransaction', 'Delete', 'Unsubscribe', False),
    ('publishQOS1Transaction', 'newPublishQOS1Transaction', 'Delete', None, True),
    ('publishQOS2Transaction', 'newPublishQOS2Transaction', 'Delete', None, True),
    ('pingTransaction', 'newPingTransaction', 'DeleteByType', None, False),
    ('disconnectTransaction', 'newDisconnectTransaction', 'DeleteByType', None, False),
]
for typ, ctor, dele, dtype, dup in TX:
    w('''//@ func %s
//@   nopanic [C25]
//@   requires [C25] cfg: client != nil && client.cfg != nil && client.cfg.RetryCount < 0xFFFFFFFFFFFFFFFF
//@   ensures [C25] made: fresh(result) && fresh(result.transaction) && ctxWF(client, result.transaction) && fresh(result.RetryTransaction) &&
//@      fresh(result.RetryTransaction.TransactionBase) && fresh(result.RetryTransaction.TransactionBase.done)
//@   ensures [C25] made_idle: result.State == nil && result.Data == nil && !finished(result.RetryTransaction.TransactionBase) &&
//@      result.RetryTransaction.TransactionBase.err == nil && result.retryNum == 0
//@   ensures [C19] budget: result.retryCount == client.cfg.RetryCount && result.retryDelay == client.cfg.RetryDelay
//@   at return after ghost result.RetryTransaction.owner = box(*%s, result)
//@   ensures [C25] made_owner: result.RetryTransaction.owner == box(*%s, result)
''' % (ctor, typ, typ))
    # retry closure
    pre = 'wfFromClient(lastPkt)'
    if dtype == 'Subscribe':
        pre += ' && istype(lastPkt, *pkts1.Subscribe)'
    assigns = 'client.wireN, client.wire, client.tryN, client.try, ' + PKTLEN
    if dup:
        assigns += ', lastPkt.(*pkts1.Publish).DUPProperty.dup, lastPkt.(*pkts1.Subscribe).DUPProperty.dup'
    w('''// retry callback: the packet held for retransmission goes out again as the same object (same message ID, same content)%s
//@ func %s$1
//@   nopanic [C25]
//@   tags [C23]
//@   requires [C25] conn: client != nil && client.conn != nil%s
//@   requires [C17] holds_what_was_sent: %s
//@   assigns %s
//@   ensures [C17] resent_as_is: (client.wireN == old(client.wireN) || client.wireN == old(client.wireN) + 1) &&
//@      (result == nil ==> client.wireN == old(client.wireN) + 1) && (client.wireN == old(client.wireN) + 1 ==> client.wire[old(client.wireN)] == lastPkt)
''' % (', with DUP set' if dup else '', ctor, ' && client.state != nil' if typ == 'pingTransaction' else '', pre, assigns))
    if typ == 'pingTransaction':
        w('''// C33: a keep-alive PINGREQ is retransmitted only while the client is active (1 = util.StateActive); otherwise the exchange is abandoned
//@   ensures [C33] not_resent_unless_active: old(deref(client.state)) != 1 ==> client.wireN == old(client.wireN) && client.tryN == old(client.tryN) && result != nil
''')
    if dup:
        w('''//@   ensures [C17] dup_set: (istype(lastPkt, *pkts1.Publish) ==> lastPkt.(*pkts1.Publish).DUPProperty.dup) &&
//@      (istype(lastPkt, *pkts1.Subscribe) ==> lastPkt.(*pkts1.Subscribe).DUPProperty.dup)
//@   ensures [C17] same_message_id: (istype(lastPkt, *pkts1.Publish) ==> lastPkt.(*pkts1.Publish).messageID == old(lastPkt.(*pkts1.Publish).messageID)) &&
//@      (istype(lastPkt, *pkts1.Subscribe) ==> lastPkt.(*pkts1.Subscribe).messageID == old(lastPkt.(*pkts1.Subscribe).messageID))
''')
    # finally closure
    if dele == 'Delete':
        w('''// completion callback: the exchange leaves the store (the entry under its message ID)
//@ func %s$2
//@   nopanic [C25]
//@   requires [C25] store: client != nil && client.transactions != nil && storeInv(client.transactions)
//@   assigns map(client.transactions.bypktID)
//@   ensures [C06] removes_its_id_only: forall k uint16 :: (k in client.transactions.bypktID) == (k != msgID && old(k in client.transactions.bypktID)) &&
//@      (k != msgID ==> client.transactions.bypktID[k] == old(client.transactions.bypktID[k]))
''' % ctor)
    else:
        w('''//@ func %s$2
//@   nopanic [C25]
//@   requires [C25] store: client != nil && client.transactions != nil && storeInv(client.transactions)
//@   assigns map(client.transactions.bypktType)
''' % ctor)

w("""
// ---- entries of the client's transaction store ----
// One opaque predicate per kind of exchange, applied under the type test (an atom then reads only fields of its own type).
//@ opaque pred clRegEntry(c *Client, t *registerTransaction) = t != nil && t.transaction != nil && ctxWF(c, t.transaction) && istype(t.Data, *pkts1.Register) && t.Data.(*pkts1.Register) != nil
//@ opaque pred clSubEntry(c *Client, t *subscribeTransaction) = t != nil && t.transaction != nil && ctxWF(c, t.transaction) && istype(t.Data, *pkts1.Subscribe) && t.Data.(*pkts1.Subscribe) != nil
//@ opaque pred clUnsubEntry(c *Client, t *unsubscribeTransaction) = t != nil && t.transaction != nil && ctxWF(c, t.transaction) && istype(t.Data, *pkts1.Unsubscribe) && t.Data.(*pkts1.Unsubscribe) != nil
//@ opaque pred clPub1Entry(c *Client, t *publishQOS1Transaction) = t != nil && t.transaction != nil && ctxWF(c, t.transaction)
//@ opaque pred clPub2Entry(c *Client, t *publishQOS2Transaction) = t != nil && t.transaction != nil && ctxWF(c, t.transaction)
//@ opaque pred clBp2Entry(c *Client, t *brokerPublishQOS2Transaction) = t != nil && t.client == c && t.TransactionBase != nil && t.TransactionBase.done != nil
//@ pred clEntryWF(c *Client, v iface) = v != nil &&
//@      (istype(v, *registerTransaction) ==> clRegEntry(c, v.(*registerTransaction))) &&
//@      (istype(v, *subscribeTransaction) ==> clSubEntry(c, v.(*subscribeTransaction))) &&
//@      (istype(v, *unsubscribeTransaction) ==> clUnsubEntry(c, v.(*unsubscribeTransaction))) &&
//@      (istype(v, *publishQOS1Transaction) ==> clPub1Entry(c, v.(*publishQOS1Transaction))) &&
//@      (istype(v, *publishQOS2Transaction) ==> clPub2Entry(c, v.(*publishQOS2Transaction))) &&
//@      (istype(v, *brokerPublishQOS2Transaction) ==> clBp2Entry(c, v.(*brokerPublishQOS2Transaction)) && v.(*brokerPublishQOS2Transaction).publish != nil)
// Each retry transaction belongs to exactly one exchange (ghost back pointer RetryTransaction.owner set by the constructors),
// so a step that changes the state of one exchange leaves the others as they were.
//@ spec clRtOf(v iface) *transactions.RetryTransaction = ite(istype(v, *registerTransaction), v.(*registerTransaction).RetryTransaction,
//@      ite(istype(v, *subscribeTransaction), v.(*subscribeTransaction).RetryTransaction, ite(istype(v, *unsubscribeTransaction), v.(*unsubscribeTransaction).RetryTransaction,
//@      ite(istype(v, *publishQOS1Transaction), v.(*publishQOS1Transaction).RetryTransaction, ite(istype(v, *publishQOS2Transaction), v.(*publishQOS2Transaction).RetryTransaction, nil)))))
//@ spec clOwns(v iface) bool = clRtOf(v) != nil ==> clRtOf(v).owner == v
//@ pred clEntries(c *Client) = forall k uint16 :: (k in c.transactions.bypktID) ==> clEntryWF(c, c.transactions.bypktID[k]) && clOwns(c.transactions.bypktID[k])
// by packet type: CONNECT (4) -> connect exchange, PINGREQ (22) -> ping, DISCONNECT (24) -> disconnect or sleep exchange
//@ opaque pred clConnEntry(c *Client, t *connectTransaction) = t != nil && t.client == c && timedWF(t.TimedTransaction)
//@ opaque pred clPingEntry(c *Client, t *pingTransaction) = t != nil && t.transaction != nil && ctxWF(c, t.transaction)
//@ opaque pred clDiscEntry(c *Client, t *disconnectTransaction) = t != nil && t.transaction != nil && ctxWF(c, t.transaction)
//@ opaque pred clSleepEntry(c *Client, t *sleepTransaction) = t != nil && t.client == c && t.TransactionBase != nil && t.TransactionBase.done != nil && t.log != nil
//@ pred clTypedWF(c *Client, v iface) = v != nil &&
//@      (istype(v, *connectTransaction) ==> clConnEntry(c, v.(*connectTransaction))) &&
//@      (istype(v, *pingTransaction) ==> clPingEntry(c, v.(*pingTransaction))) &&
//@      (istype(v, *disconnectTransaction) ==> clDiscEntry(c, v.(*disconnectTransaction))) &&
//@      (istype(v, *sleepTransaction) ==> clSleepEntry(c, v.(*sleepTransaction)))
//@ pred clTyped(c *Client) = forall k pkts.PacketType :: (k in c.transactions.bypktType) ==> clTypedWF(c, c.transactions.bypktType[k])
// Client invariant: holds after NewClient + Dial and after every step (handlePacket, an API call, a timer or completion callback).
//@ pred cInv(c *Client) = cLite(c) && handlersWF(c.messageHandlers) && clEntries(c) && clTyped(c)
""")

FIN = 'armed(t.RetryTransaction.timer), t.RetryTransaction.TransactionBase.err, closed(t.RetryTransaction.TransactionBase.done), calls(t.RetryTransaction.TransactionBase.finally)'
TB = 't.RetryTransaction.TransactionBase'
w("""
// ---- completing the client's own exchanges ----
//@ func (*publishQOS1Transaction).Puback
//@   nopanic [C25]
//@   requires [C25] wf: t != nil && t.transaction != nil && ctxWF(t.client, t.transaction) && puback != nil
//@   assigns %(FIN)s
//@   ensures [C17] ignored_unless_awaited: old(t.State) != %(s1)s ==> finished(%(TB)s) == old(finished(%(TB)s)) && %(TB)s.err == old(%(TB)s.err)
//@   ensures [C17] accepted_completes: old(t.State) == %(s1)s && puback.ReturnCode == 0 ==> finished(%(TB)s) && %(TB)s.err == old(%(TB)s.err)
//@   ensures [C17] rejected_fails: old(t.State) == %(s1)s && puback.ReturnCode != 0 && !old(finished(%(TB)s)) ==> finished(%(TB)s) && %(TB)s.err != nil
//@ func (*publishQOS2Transaction).Pubrec
//@   nopanic [C25]
//@   tags [C23]
//@   requires [C25] wf: t != nil && t.transaction != nil && ctxWF(t.client, t.transaction) && pubrec != nil && t.client != nil && t.client.conn != nil
//@   let c = t.client
//@   assigns t.State, t.Data, t.retryNum, t.RetryTransaction.timer, armed(t.RetryTransaction.timer), c.wireN, c.wire, c.tryN, c.try
//@   ensures [C25] keeps: ctxWF(c, t.transaction)
//@   ensures [C17] ignored_unless_awaited: old(t.State) != %(s2)s ==> result == nil && c.tryN == old(c.tryN) && t.State == old(t.State) && t.Data == old(t.Data)
//@   ensures [C17] pubrel_follows: old(t.State) == %(s2)s ==> t.State == %(s4)s && c.tryN == old(c.tryN) + 1 && istype(c.try[old(c.tryN)], *pkts1.Pubrel) &&
//@      c.try[old(c.tryN)].(*pkts1.Pubrel).messageID == pubrec.messageID && t.Data == c.try[old(c.tryN)] && wfFromClient(t.Data)
//@   ensures [C17] never_completes_here: finished(%(TB)s) == old(finished(%(TB)s)) && %(TB)s.err == old(%(TB)s.err)
//@ func (*publishQOS2Transaction).Pubcomp
//@   nopanic [C25]
//@   requires [C25] wf: t != nil && t.transaction != nil && ctxWF(t.client, t.transaction) && pubcomp != nil
//@   assigns %(FIN)s
//@   ensures [C17] ignored_unless_awaited: old(t.State) != %(s4)s ==> finished(%(TB)s) == old(finished(%(TB)s)) && %(TB)s.err == old(%(TB)s.err)
//@   ensures [C17] completes: old(t.State) == %(s4)s ==> finished(%(TB)s) && %(TB)s.err == old(%(TB)s.err)
//@ func (*registerTransaction).Regack
//@   nopanic [C25]
//@   requires [C25] wf: clRegEntry(t.client, t) && t.client != nil && t.client.registeredTopics != nil && regack != nil
//@   guarded [C29] registeredTopicsLock: registeredTopics
//@   assigns map(t.client.registeredTopics), %(FIN)s
//@   ensures [C25] keeps: clRegEntry(t.client, t)
//@ func (*subscribeTransaction).Suback
//@   nopanic [C25]
//@   requires [C25] wf: clSubEntry(t.client, t) && t.client != nil && t.client.registeredTopics != nil && t.client.cfg != nil && t.client.messageHandlers != nil &&
//@      handlersWF(t.client.messageHandlers) && suback != nil
//@   guarded [C29] registeredTopicsLock: registeredTopics
//@   let sub = t.Data.(*pkts1.Subscribe)
//@   let mh = t.client.messageHandlers
//@   assigns map(t.client.registeredTopics), mh.handlers, %(FIN)s
//@   ensures [C25] keeps: clSubEntry(t.client, t) && handlersWF(mh)
// the filter the subscription is filed under is the one that was subscribed: the name, the predefined ID's name for this client, or the two octets of the short ID
//@   at Split.0 before assert [C27] files_the_subscribed_filter: (sub.TopicIDType == 0 ==> arg(0) == sub.TopicName) &&
//@      (sub.TopicIDType == 1 ==> arg(0) == nameSpec(t.client.cfg.PredefinedTopics, t.client.cfg.ClientID, sub.TopicID)) &&
//@      (sub.TopicIDType == 2 ==> len(arg(0)) == 2 && arg(0)[0] == uint8(sub.TopicID >> 8) && arg(0)[1] == uint8(sub.TopicID))
//@   ensures [C27] refused_adds_nothing: suback.ReturnCode != 0 ==> (forall k iface :: (k in mh.handlers) == old(k in mh.handlers) && smGet(mh.handlers, k) == old(smGet(mh.handlers, k)))
//@   ensures [C27] string_filter_stored_under_its_name: suback.ReturnCode == 0 && sub.TopicIDType == 0 ==> (box(string, sub.TopicName) in mh.handlers) &&
//@      smGet(mh.handlers, box(string, sub.TopicName)).(*messageHandler).callback == t.callback &&
//@      strJoin(smGet(mh.handlers, box(string, sub.TopicName)).(*messageHandler).route, "/") == sub.TopicName
//@   ensures [C27] one_subscription_at_most: forall k iface :: (k in mh.handlers) && !old(k in mh.handlers) ==> smGet(mh.handlers, k).(*messageHandler).callback == t.callback
//@ func (*unsubscribeTransaction).Unsuback
//@   nopanic [C25]
//@   requires [C25] wf: clUnsubEntry(t.client, t) && t.client != nil && t.client.cfg != nil && t.client.messageHandlers != nil && handlersWF(t.client.messageHandlers)
//@   let unsub = t.Data.(*pkts1.Unsubscribe)
//@   let mh = t.client.messageHandlers
//@   assigns mh.handlers, %(FIN)s
//@   ensures [C25] keeps: clUnsubEntry(t.client, t) && handlersWF(mh)
//@   at Split.0 before assert [C27] removes_the_unsubscribed_filter: (unsub.TopicIDType == 0 ==> arg(0) == unsub.TopicName) &&
//@      (unsub.TopicIDType == 1 ==> arg(0) == nameSpec(t.client.cfg.PredefinedTopics, t.client.cfg.ClientID, unsub.TopicID)) &&
//@      (unsub.TopicIDType == 2 ==> len(arg(0)) == 2 && arg(0)[0] == uint8(unsub.TopicID >> 8) && arg(0)[1] == uint8(unsub.TopicID))
//@   ensures [C27] string_filter_removed: unsub.TopicIDType == 0 && %(TB)s.err == old(%(TB)s.err) ==> !(box(string, unsub.TopicName) in mh.handlers)
//@   ensures [C27] adds_nothing: forall k iface :: (k in mh.handlers) ==> old(k in mh.handlers) && smGet(mh.handlers, k) == old(smGet(mh.handlers, k))
""" % dict(FIN=FIN, TB=TB, s1=ST(1), s2=ST(2), s4=ST(4)))

w("""
// ---- connect / ping / disconnect / sleep exchanges ----
// the state becomes the given one, nothing else changes; the notification of the keep-alive loop is a channel send inside a select (the
// channel's content is not modelled: A-VALUECHAN)
//@ func (*Client).setState
//@   nopanic [C25]
//@   requires [C25] state: c != nil && c.state != nil && c.cfg != nil && c.log != nil && c.groupCtx != nil
//@   assigns deref(c.state)
//@   ensures [C25] set: deref(c.state) == new
//@ func newConnectTransaction
//@   nopanic [C25]
//@   requires [C25] cfg: client != nil && client.cfg != nil
//@   ensures [C25] made: fresh(result) && result.client == client && timedWF(result.TimedTransaction) && fresh(result.TimedTransaction) &&
//@      !finished(result.TimedTransaction.TransactionBase) && result.TimedTransaction.TransactionBase.err == nil
//@ func newConnectTransaction$1
//@   nopanic [C25]
//@   requires [C25] store: client != nil && client.transactions != nil && storeInv(client.transactions)
//@   assigns map(client.transactions.bypktType)
//@ func (*connectTransaction).Connack
//@   nopanic [C25]
//@   requires [C25] wf: t != nil && t.client != nil && cLite(t.client) && timedWF(t.TimedTransaction) && connack != nil
//@   assigns deref(t.client.state), armed(t.TimedTransaction.timer), t.TimedTransaction.TransactionBase.err,
//@      closed(t.TimedTransaction.TransactionBase.done), calls(t.TimedTransaction.TransactionBase.finally)
//@   ensures [C25] completes: finished(t.TimedTransaction.TransactionBase)
//@ func (*pingTransaction).Pingresp
//@   nopanic [C25]
//@   requires [C25] wf: t != nil && t.transaction != nil && ctxWF(t.client, t.transaction)
//@   assigns %(FIN)s
//@ func (*disconnectTransaction).Disconnect
//@   nopanic [C25]
//@   requires [C25] wf: t != nil && t.transaction != nil && ctxWF(t.client, t.transaction)
//@   assigns %(FIN)s

// ---- QoS 2 PUBLISH from the gateway (C17: every PUBREL is confirmed; C27: delivery on PUBREL) ----
//@ func newBrokerPublishQOS2Transaction
//@   nopanic [C25]
//@   requires [C25] client: client != nil
//@   ensures [C25] made: fresh(result) && result.client == client && result.TransactionBase != nil && fresh(result.TransactionBase) &&
//@      result.TransactionBase.done != nil && fresh(result.TransactionBase.done) && !finished(result.TransactionBase) && result.publish == nil
//@ func newBrokerPublishQOS2Transaction$1
//@   nopanic [C25]
//@   requires [C25] store: client != nil && client.transactions != nil && storeInv(client.transactions)
//@   assigns map(client.transactions.bypktID)
//@   ensures [C06] removes_its_id_only: forall k uint16 :: (k in client.transactions.bypktID) == (k != msgID && old(k in client.transactions.bypktID)) &&
//@      (k != msgID ==> client.transactions.bypktID[k] == old(client.transactions.bypktID[k]))
//@ func (*brokerPublishQOS2Transaction).Publish
//@   nopanic [C25]
//@   tags [C23]
//@   requires [C25] wf: t != nil && t.client != nil && t.client.conn != nil && publish != nil
//@   let c = t.client
//@   assigns t.publish, c.wireN, c.wire, c.tryN, c.try
//@   ensures [C25] holds_the_message: t.publish == publish
//@   ensures [C17] pubrec_sent: c.tryN == old(c.tryN) + 1 && istype(c.try[old(c.tryN)], *pkts1.Pubrec) && c.try[old(c.tryN)].(*pkts1.Pubrec).messageID == publish.messageID
//@ func (*brokerPublishQOS2Transaction).Pubrel
//@   nopanic [C25]
//@   tags [C23]
//@   requires [C25] wf: t != nil && t.client != nil && cLite(t.client) && handlersWF(t.client.messageHandlers) && t.TransactionBase != nil && t.TransactionBase.done != nil &&
//@      t.publish != nil && pubrel != nil
//@   guarded [C29] registeredTopicsLock: registeredTopics
//@   let c = t.client
//@   assigns c.wireN, c.wire, c.tryN, c.try, anycalls(), closed(t.TransactionBase.done), c.messageHandlers.dispatchN
//@   ensures [C16,C27] dispatched_once_when_resolvable: c.messageHandlers.dispatchN == old(c.messageHandlers.dispatchN) || c.messageHandlers.dispatchN == old(c.messageHandlers.dispatchN) + 1
//@   ensures [C17,C16] always_confirms: c.tryN == old(c.tryN) + 1 && istype(c.try[old(c.tryN)], *pkts1.Pubcomp) && c.try[old(c.tryN)].(*pkts1.Pubcomp).messageID == pubrel.messageID
//@   ensures [C17] completes_unless_it_reports_an_error: finished(t.TransactionBase) || result != nil
""" % dict(FIN=FIN))

w("""
// ---- sleep exchange (C25; timing of the sleep itself: C12/C33 not applicable) ----
// state: 0 before Sleep, 5 awaitingDisconnect (t.disconnect is the DISCONNECT to retransmit), 6 awaitingPingresp.
// t.disconnect is the DISCONNECT to retransmit while the gateway has not acknowledged it, nil otherwise; the resend timer may fire at
// any moment (also after the acknowledgement), so its callback may rely on this invariant only (`async`), not on t.disconnect != nil.
//@ pred sleepWF(t *sleepTransaction) = t != nil && t.client != nil && cLite(t.client) && t.TransactionBase != nil && t.TransactionBase.done != nil && t.log != nil
//@ pred sleepResendWF(t *sleepTransaction) = sleepWF(t) && (t.disconnect != nil ==> wfFromClient(box(*pkts1.Disconnect, t.disconnect)))
//@ func newSleepTransaction
//@   nopanic [C25]
//@   requires [C25] client: client != nil && cLite(client) && client.group != nil
//@   ensures [C25] made: fresh(result) && sleepWF(result) && result.client == client && result.disconnect == nil && result.timer == nil && result.state == 0 &&
//@      fresh(result.TransactionBase) && !finished(result.TransactionBase) && result.disconnectResendNum == 0
//@ func newSleepTransaction$1
//@   nopanic [C25]
//@   requires [C25] store: t != nil && client != nil && client.transactions != nil && storeInv(client.transactions)
//@   assigns armed(t.timer), map(client.transactions.bypktType)
//@ func newSleepTransaction$2
//@   nopanic [C25]
//@   requires [C25] wf: client != nil && t != nil && t.TransactionBase != nil
//@ func (*sleepTransaction).stopTimer
//@   nopanic [C25]
//@   requires [C25] t: t != nil
//@   assigns armed(t.timer)
//@   ensures [C25] disarmed: !armed(t.timer)
//@ func (*sleepTransaction).Success
//@   nopanic [C25]
//@   requires [C25] wf: t != nil && t.TransactionBase != nil && t.TransactionBase.done != nil
//@   assigns armed(t.timer), closed(t.TransactionBase.done), calls(t.TransactionBase.finally)
//@   ensures [C25] finished: finished(t.TransactionBase)
//@   ensures [C18] disarmed: !armed(t.timer)
//@   ensures [C18] completes_once: calls(t.TransactionBase.finally) == old(calls(t.TransactionBase.finally)) + ite(old(finished(t.TransactionBase)) || t.TransactionBase.finally == nil, 0, 1)
//@ func (*sleepTransaction).Fail
//@   nopanic [C25]
//@   requires [C25] wf: t != nil && t.TransactionBase != nil && t.TransactionBase.done != nil
//@   assigns armed(t.timer), t.TransactionBase.err, closed(t.TransactionBase.done), calls(t.TransactionBase.finally)
//@   ensures [C25] finished: finished(t.TransactionBase)
//@   ensures [C18] disarmed: !armed(t.timer)
//@   ensures [C18] err_stable: old(finished(t.TransactionBase)) ==> t.TransactionBase.err == old(t.TransactionBase.err)
//@   ensures [C18] completes_once: calls(t.TransactionBase.finally) == old(calls(t.TransactionBase.finally)) + ite(old(finished(t.TransactionBase)) || t.TransactionBase.finally == nil, 0, 1)
//@ func (*sleepTransaction).startSleep
//@   nopanic [C25]
//@   requires [C25] wf: sleepWF(t)
//@   assigns deref(t.client.state), t.timer, armed(t.timer)
//@   ensures [C25] keeps: sleepWF(t)
//@ func (*sleepTransaction).wakeup
//@   async [C25] wf: sleepWF(t)
//@   nopanic [C25]
//@   tags [C23]
//@   requires [C25] wf: sleepWF(t)
//@   let c = t.client
//@   assigns deref(c.state), t.state, t.timer, armed(t.timer), c.wireN, c.wire, c.tryN, c.try, t.TransactionBase.err, closed(t.TransactionBase.done), calls(t.TransactionBase.finally)
//@   ensures [C25] keeps: sleepWF(t)
// C18 for the sleep exchange: a timer callback that runs after the exchange has finished (Stop came too late) does nothing
//@   ensures [C18] nothing_after_done: old(finished(t.TransactionBase)) ==> c.wireN == old(c.wireN) && c.tryN == old(c.tryN) && deref(c.state) == old(deref(c.state)) &&
//@      t.state == old(t.state) && t.timer == old(t.timer) && armed(t.timer) == old(armed(t.timer)) && t.TransactionBase.err == old(t.TransactionBase.err) &&
//@      calls(t.TransactionBase.finally) == old(calls(t.TransactionBase.finally))
//@   ensures [C18] no_timer_left_by_a_finished_exchange: finished(t.TransactionBase) && !old(finished(t.TransactionBase)) ==> !armed(t.timer)
//@ func (*sleepTransaction).wakeup$1
//@   async [C25] wf: t != nil && t.TransactionBase != nil && t.TransactionBase.done != nil
//@   nopanic [C25]
//@   requires [C25] wf: t != nil && t.TransactionBase != nil && t.TransactionBase.done != nil
//@   assigns armed(t.timer), t.TransactionBase.err, closed(t.TransactionBase.done), calls(t.TransactionBase.finally)
//@   ensures [C18] nothing_after_done: old(finished(t.TransactionBase)) ==> t.TransactionBase.err == old(t.TransactionBase.err) &&
//@      calls(t.TransactionBase.finally) == old(calls(t.TransactionBase.finally))
//@ func (*sleepTransaction).Sleep
//@   nopanic [C25]
//@   tags [C23]
//@   guarded [C25] mutex: disconnect
//@   requires [C25] wf: sleepWF(t)
//@   let c = t.client
//@   assigns deref(c.state), t.disconnect, t.state, t.timer, armed(t.timer), c.wireN, c.wire, c.tryN, c.try, t.TransactionBase.err, closed(t.TransactionBase.done), calls(t.TransactionBase.finally)
//@   ensures [C25] keeps: sleepWF(t)
//@ func (*sleepTransaction).resendDisconnect
//@   async [C25] wf: sleepResendWF(t)
//@   nopanic [C25]
//@   tags [C23]
//@   guarded [C25] mutex: disconnect, disconnectResendNum
//@   requires [C25] wf: sleepResendWF(t)
//@   let c = t.client
//@   assigns t.disconnectResendNum, t.timer, armed(t.timer), c.wireN, c.wire, c.tryN, c.try, t.disconnect.Header.pktLength, t.TransactionBase.err, closed(t.TransactionBase.done), calls(t.TransactionBase.finally)
//@   ensures [C25] keeps: sleepResendWF(t)
//@   ensures [C18] nothing_after_done: old(finished(t.TransactionBase)) ==> c.wireN == old(c.wireN) && c.tryN == old(c.tryN) &&
//@      t.disconnectResendNum == old(t.disconnectResendNum) && t.timer == old(t.timer) && armed(t.timer) == old(armed(t.timer)) &&
//@      t.TransactionBase.err == old(t.TransactionBase.err) && calls(t.TransactionBase.finally) == old(calls(t.TransactionBase.finally))
//@   ensures [C18] no_timer_left_by_a_finished_exchange: finished(t.TransactionBase) && !old(finished(t.TransactionBase)) ==> !armed(t.timer)
//@   ensures [C25,C23] nothing_resent_once_acknowledged: old(t.disconnect) == nil ==> c.wireN == old(c.wireN) && c.tryN == old(c.tryN)
//@ func (*sleepTransaction).Disconnect
//@   nopanic [C25]
//@   guarded [C25] mutex: disconnect
//@   requires [C25] wf: sleepWF(t) && disconnect != nil
//@   assigns deref(t.client.state), t.disconnect, t.timer, armed(t.timer)
//@   ensures [C25] keeps: sleepWF(t)
//@ func (*sleepTransaction).Pingresp
//@   nopanic [C25]
//@   requires [C25] wf: sleepWF(t) && pingresp != nil
//@   assigns armed(t.timer), closed(t.TransactionBase.done), calls(t.TransactionBase.finally)
""")

text = ''.join(out)
open(P, 'w').write('//go:build verif\n\n// Contracts for the exchanges of the client library (generated by /verif/tools/gen_client.py).\n// Comment-only file read by /verif/govc.\n\npackage client\n\n' + text)
print('generated %d lines' % text.count('\n'))
