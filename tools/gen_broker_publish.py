#!/usr/bin/env python3
"""Generates the broker-initiated PUBLISH section of /repo/gateway/zz_contracts_verif.go
(three near-identical transaction types; the text between the BEGIN/END markers is replaced)."""
import re, sys
P = '/repo/gateway/zz_bp_contracts_verif.go'
BEGIN = '// ---- BEGIN generated: broker-initiated PUBLISH exchanges (tools/gen_broker_publish.py) ----\n'
END = '// ---- END generated ----\n'
T = lambda n: '*brokerPublishQOS%dTransaction' % n
ST = lambda k: 'box(transactionState, %d)' % k
REGS_SAME = '(forall k iface :: (k in h.registeredTopics) == old(k in h.registeredTopics) && smGet(h.registeredTopics, k) == old(smGet(h.registeredTopics, k)))'
PKTLEN = ', '.join('%%s.(*snPkts1.%s).Header.pktLength' % t for t in ['GwInfo', 'Connect', 'WillMsg', 'Register', 'Publish', 'Pingreq', 'WillMsgUpd', 'Auth', 'WillTopic', 'WillTopicUpd', 'Subscribe', 'Unsubscribe', 'Disconnect'])

out = []
w = out.append
w('''// ---- broker-initiated PUBLISH exchanges (C02, C16) ----
// transactionState: 0 done, 1 awaitingRegack, 2 awaitingPuback, 3 awaitingPubrec, 4 awaitingPubrel, 5 awaitingPubcomp.
// The methods of the embedded brokerPublishTransactionBase are verified inside their callers.
//@ inline (*brokerPublishTransactionBase).SetSNPublish
//@ inline (*brokerPublishTransactionBase).regack
//@ inline (*brokerPublishTransactionBase).ProceedSN
//@ inline (*brokerPublishTransactionBase).ProceedMQTT
//@ spec isMqAck(d iface) bool = istype(d, *mqPkts.PubackPacket) || istype(d, *mqPkts.PubrecPacket) || istype(d, *mqPkts.PubcompPacket)
// What an exchange holds for retransmission (RetryTransaction.Data) is the packet ProceedSN / ProceedMQTT has just
// sent: a gateway-to-client packet whose well-formedness is the precondition of the snSend that follows the Proceed,
// or one of the three MQTT acknowledgements built in Puback / Pubrec / Pubcomp. resend's precondition states this.
// While a REGACK is awaited the exchange holds the REGISTER it sent and the PUBLISH to send next.
''')
for n in (0, 1, 2):
    w('''//@ pred bp%dWF(t %s) = t != nil && t.handler != nil && t.RetryTransaction != nil && retryCfg(t.RetryTransaction) &&
//@      (t.State == %s ==> istype(t.Data, *snPkts1.Register) && t.snPublish != nil && wfFromGateway(box(*snPkts1.Publish, t.snPublish)))
''' % (n, T(n), ST(1)))
w('''// Each retry transaction belongs to exactly one exchange (ghost back pointer set by the constructors).
//@ spec owns(v iface) bool = rtOf(v) != nil ==> rtOf(v).owner == v
//@ spec pendingPub(v iface) *snPkts1.Publish = ite(istype(v, %s), v.(%s).snPublish, ite(istype(v, %s), v.(%s).snPublish, v.(%s).snPublish))

''' % (T(0), T(0), T(1), T(1), T(2)))

w('''// ---- C04: a topic ID announced by a gateway REGISTER is bound by the REGACK and by nothing else ----
// The retry transaction of a stored broker-PUBLISH exchange (nil for other kinds of transactions).
//@ spec rtOf(v iface) *transactions.RetryTransaction = ite(istype(v, %s), v.(%s).RetryTransaction,
//@      ite(istype(v, %s), v.(%s).RetryTransaction, ite(istype(v, %s), v.(%s).RetryTransaction, nil)))
//@ spec pendingReg(v iface) bool = rtOf(v) != nil && rtOf(v).State == %s
//@ spec pendingID(v iface) uint16 = rtOf(v).Data.(*snPkts1.Register).TopicID
// Which exchange announced a topic ID in a REGISTER (ghost; makes the announced IDs pairwise different).
//@ ghost handler1.pendingOwner map[uint16]iface
//@ pred pendInv(h *handler1) = forall k uint16 :: (k in h.transactions.bypktID) && pendingReg(h.transactions.bypktID[k]) ==>
//@      (pendingID(h.transactions.bypktID[k]) in h.topicID.given) && !(box(uint16, pendingID(h.transactions.bypktID[k])) in h.registeredTopics) &&
//@      h.pendingOwner[pendingID(h.transactions.bypktID[k])] == h.transactions.bypktID[k]

''' % (T(0), T(0), T(1), T(1), T(2), T(2), ST(1)))
for n in (0, 1, 2):
    w('''//@ func newBrokerPublishQOS%d
//@   nopanic [C25]
//@   requires [C25] cfg: h != nil && h.cfg != nil && h.cfg.RetryCount < 0xFFFFFFFFFFFFFFFF
//@   at return after ghost result.RetryTransaction.owner = box(%s, result)
//@   ensures [C25] made: fresh(result) && result.handler == h && fresh(result.RetryTransaction) && result.snPublish == nil &&
//@      fresh(result.RetryTransaction.TransactionBase) && fresh(result.RetryTransaction.TransactionBase.done)
//@   ensures [C25] made_wf: bp%dWF(result)
//@   ensures [C25] made_idle: result.State == nil && result.Data == nil && !finished(result.RetryTransaction.TransactionBase) && result.RetryTransaction.timer == nil
//@   ensures [C25] made_owner: result.RetryTransaction.owner == box(%s, result)
'''.replace('QOS%d\n', 'QOS%dTransaction\n') % (n, T(n), n, T(n)))

HEAD = '''//@   let h = t.handler
//@   let rt = t.RetryTransaction
//@   let tb = t.RetryTransaction.TransactionBase
'''
def regack(n):
    nxt = {0: 'finished(tb)', 1: 'rt.State == %s && rt.Data == box(*snPkts1.Publish, pub)' % ST(2), 2: 'rt.State == %s && rt.Data == box(*snPkts1.Publish, pub)' % ST(3)}[n]
    w('''//@ func (%s).Regack
//@   nopanic [C25]
//@   requires [C25] wf: bp%dWF(t) && hLite(t.handler) && snRegack != nil
//@   requires [C23] queue_wf: bufWF(t.handler)
//@   requires [C04] reg: regTypes(t.handler)
%s//@   let reg = old(t.Data.(*snPkts1.Register))
//@   let pub = old(t.snPublish)
//@   let awaited = old(t.State) == %s
//@   assigns h.registeredTopics, rt.State, rt.Data, rt.retryNum, rt.timer, armed(rt.timer), h.snOutN, h.snOut, h.pktBuffer, t.snPublish.Header.pktLength,
//@      tb.err, closed(tb.done), calls(tb.finally)
//@   ensures [C23] keeps_queue_wf: bufWF(h)
//@   ensures [C25] keeps: bp%dWF(t) && regTypes(h)
//@   ensures [C25] state_same: state(h) == old(state(h))
//@   ensures [C16] ignored_unless_awaited: !awaited ==> result == nil && h.snOutN == old(h.snOutN) && rt.State == old(rt.State) && rt.Data == old(rt.Data) &&
//@      finished(tb) == old(finished(tb)) && sameSlice(h.pktBuffer, old(h.pktBuffer)) && %s
//@   ensures [C02,C01] refusal_ends_exchange: awaited && snRegack.ReturnCode != 0 ==> result == nil && finished(tb) && h.snOutN == old(h.snOutN) &&
//@      sameSlice(h.pktBuffer, old(h.pktBuffer)) && %s
//@   ensures [C02,C04] accepted_binds_announced_id: awaited && snRegack.ReturnCode == 0 ==> (box(uint16, reg.TopicID) in h.registeredTopics) &&
//@      smGet(h.registeredTopics, box(uint16, reg.TopicID)) == box(string, reg.TopicName) &&
//@      (forall k iface :: k != box(uint16, reg.TopicID) ==> (k in h.registeredTopics) == old(k in h.registeredTopics) && smGet(h.registeredTopics, k) == old(smGet(h.registeredTopics, k)))
//@   ensures [C02] accepted_sends_the_publish: awaited && snRegack.ReturnCode == 0 ==> (h.snOutN == old(h.snOutN) || h.snOutN == old(h.snOutN) + 1) &&
//@      (old(state(h)) != 2 && result == nil ==> h.snOutN == old(h.snOutN) + 1) &&
//@      (h.snOutN == old(h.snOutN) + 1 ==> h.snOut[old(h.snOutN)] == box(*snPkts1.Publish, pub)) &&
//@      (old(state(h)) == 2 ==> len(h.pktBuffer) == old(len(h.pktBuffer)) + 1 && h.pktBuffer[old(len(h.pktBuffer))] == box(*snPkts1.Publish, pub))
//@   ensures [C16] next_state: awaited && snRegack.ReturnCode == 0 && result == nil ==> %s
//@   ensures [C16] leaves_register_phase: awaited ==> rt.State != box(transactionState, 1) || finished(tb)
//@   ensures [C16] state_after_accept: awaited && snRegack.ReturnCode == 0 ==> rt.State == %s
//@   ensures [C16] state_else_unchanged: !(awaited && snRegack.ReturnCode == 0) ==> rt.State == old(rt.State) && rt.Data == old(rt.Data)
''' % (T(n), n, HEAD, ST(1), n, REGS_SAME, REGS_SAME, nxt, ST({0: 0, 1: 2, 2: 3}[n])))

def mqstep(n, meth, param, ptype, awaitst, nxt, outtype, idexpr, refuse=False):
    # client acknowledgement relayed to the broker
    done = nxt == 0
    w('''//@ func (%s).%s
//@   nopanic [C25]
//@   tags [C24]
//@   requires [C25] wf: bp%dWF(t) && hLite(t.handler) && %s != nil
%s//@   let awaited = old(t.State) == %s
//@   assigns rt.State, rt.Data, rt.retryNum, rt.timer, armed(rt.timer), h.mqttOutN, h.mqttOut, tb.err, closed(tb.done), calls(tb.finally)
//@   ensures [C25] keeps: bp%dWF(t)
//@   ensures [C16] ignored_unless_awaited: !awaited ==> result == nil && h.mqttOutN == old(h.mqttOutN) && rt.State == old(rt.State) && rt.Data == old(rt.Data) &&
//@      finished(tb) == old(finished(tb))
''' % (T(n), meth, n, param, HEAD, ST(awaitst), n))
    cond = 'awaited'
    if refuse:
        w('''//@   ensures [C16] refusal_ends_exchange: awaited && %s.ReturnCode != 0 ==> result == nil && h.mqttOutN == old(h.mqttOutN) && finished(tb)
''' % param)
        cond = 'awaited && %s.ReturnCode == 0' % param
    w('''//@   ensures [C16] relayed_once: %s ==> (h.mqttOutN == old(h.mqttOutN) || h.mqttOutN == old(h.mqttOutN) + 1) && (result == nil ==> h.mqttOutN == old(h.mqttOutN) + 1) &&
//@      (h.mqttOutN == old(h.mqttOutN) + 1 ==> istype(h.mqttOut[old(h.mqttOutN)], *mqPkts.%s) &&
//@         h.mqttOut[old(h.mqttOutN)].(*mqPkts.%s).MessageID == %s && rt.Data == h.mqttOut[old(h.mqttOutN)])
//@   ensures [C16] next_state: %s && result == nil ==> %s
//@   ensures [C16] failure_ends_exchange: %s && result != nil ==> finished(tb)
//@   ensures [C16] state_after_relay: %s ==> rt.State == %s
//@   ensures [C16] state_else_unchanged: !(%s) ==> rt.State == old(rt.State) && rt.Data == old(rt.Data)
''' % (cond, outtype, outtype, idexpr, cond, 'finished(tb) && rt.State == %s' % ST(0) if done else 'rt.State == %s && !finished(tb) == !old(finished(tb))' % ST(nxt), cond, cond, ST(nxt), cond))

for n in (0, 1, 2):
    regack(n)
mqstep(1, 'Puback', 'snPuback', '*snPkts1.Puback', 2, 0, 'PubackPacket', 'snPuback.messageID', refuse=True)
mqstep(2, 'Pubrec', 'snPubrec', '*snPkts1.Pubrec', 3, 4, 'PubrecPacket', 'snPubrec.messageID')
mqstep(2, 'Pubcomp', 'snPubcomp', '*snPkts1.Pubcomp', 5, 0, 'PubcompPacket', 'snPubcomp.messageID')
w('''//@ func (%s).Pubrel
//@   nopanic [C25]
//@   requires [C25] wf: bp2WF(t) && hLite(t.handler) && mqPubrel != nil
//@   requires [C23] queue_wf: bufWF(t.handler)
%s//@   let awaited = old(t.State) == %s
//@   assigns rt.State, rt.Data, rt.retryNum, rt.timer, armed(rt.timer), h.snOutN, h.snOut, h.pktBuffer, tb.err, closed(tb.done), calls(tb.finally)
//@   ensures [C23] keeps_queue_wf: bufWF(h)
//@   ensures [C25] keeps: bp2WF(t)
//@   ensures [C25] state_same: state(h) == old(state(h))
//@   ensures [C16] ignored_unless_awaited: !awaited ==> result == nil && h.snOutN == old(h.snOutN) && rt.State == old(rt.State) && rt.Data == old(rt.Data) &&
//@      finished(tb) == old(finished(tb)) && sameSlice(h.pktBuffer, old(h.pktBuffer))
//@   ensures [C16] relayed_once: awaited ==> (h.snOutN == old(h.snOutN) || h.snOutN == old(h.snOutN) + 1) && (old(state(h)) != 2 && result == nil ==> h.snOutN == old(h.snOutN) + 1) &&
//@      (h.snOutN == old(h.snOutN) + 1 ==> istype(h.snOut[old(h.snOutN)], *snPkts1.Pubrel) &&
//@         h.snOut[old(h.snOutN)].(*snPkts1.Pubrel).messageID == mqPubrel.MessageID && rt.Data == h.snOut[old(h.snOutN)])
//@   ensures [C16] next_state: awaited ==> rt.State == %s
//@   ensures [C16] failure_ends_exchange: awaited && result != nil ==> finished(tb)
''' % (T(2), HEAD, ST(4), ST(5)))

w('''
// The retry callback of the three exchanges: the packet held for retransmission goes out again, as the same
// object (same message ID and payload), with DUP set where the packet type has one.
//@ func (*brokerPublishTransactionBase).resend
//@   nopanic [C25]
//@   tags [C24]
//@   requires [C25] wf: t.handler != nil && hLite(t.handler)
//@   requires [C23] queue_wf: bufWF(t.handler)
//@   requires [C16] holds_what_was_sent: pktx != nil && (wfFromGateway(pktx) || isMqAck(pktx))
//@   deadreturn 2 what is held for retransmission is always an MQTT-SN or an MQTT packet
//@   let h = t.handler
//@   let sn = old(wfFromGateway(pktx))
//@   assigns h.snOutN, h.snOut, h.pktBuffer, h.mqttOutN, h.mqttOut, pktx.(*snPkts1.Publish).DUPProperty.dup,
//@      %s
//@   ensures [C23] keeps_queue_wf: bufWF(h)
//@   ensures [C25] state_same: state(h) == old(state(h))
//@   ensures [C14] retransmits_no_disconnect: h.mqttOutN == old(h.mqttOutN) || (h.mqttOutN == old(h.mqttOutN) + 1 && isMqAck(h.mqttOut[old(h.mqttOutN)]))
//@   ensures [C16] sn_packet_resent_as_is: sn ==> h.mqttOutN == old(h.mqttOutN) && (h.snOutN == old(h.snOutN) || h.snOutN == old(h.snOutN) + 1) &&
//@      (old(state(h)) != 2 && result == nil ==> h.snOutN == old(h.snOutN) + 1) && (h.snOutN == old(h.snOutN) + 1 ==> h.snOut[old(h.snOutN)] == pktx)
//@   ensures [C16] dup_set: istype(pktx, *snPkts1.Publish) && old(state(h)) != 2 ==> pktx.(*snPkts1.Publish).DUPProperty.dup
// C11: the packet of an exchange with a sleeping client is already in the sleep buffer: its retransmission is neither sent nor queued again
//@   ensures [C11] asleep_nothing_requeued: sn && old(state(h)) == 2 ==> result == nil && h.snOutN == old(h.snOutN) && h.mqttOutN == old(h.mqttOutN) && sameSlice(h.pktBuffer, old(h.pktBuffer))
//@   ensures [C16] mqtt_ack_resent_as_is: !sn ==> h.snOutN == old(h.snOutN) && (h.mqttOutN == old(h.mqttOutN) || h.mqttOutN == old(h.mqttOutN) + 1) &&
//@      (result == nil ==> h.mqttOutN == old(h.mqttOutN) + 1) && (h.mqttOutN == old(h.mqttOutN) + 1 ==> h.mqttOut[old(h.mqttOutN)] == pktx)
''' % (PKTLEN % tuple(['pktx'] * 13)))

w('''
// ---- C02: broker PUBLISH -> client PUBLISH (after a REGISTER when the name has no ID yet) ----
//@ func (*handler1).findTopicID
//@   nopanic [C25]
//@   requires [C25] types: regTypes(h)
//@   ensures [C02,C32] resolves: result2 ==> (result1 == 0 || result1 == 1) && denotesDefined(h, result1, result0) && denotesName(h, result1, result0, topic)
//@   ensures [C02] none: !result2 ==> result0 == 0 && result1 == 0

//@ func (*handler1).handleBrokerPublish
//@   nopanic [C25]
//@   requires [C25] inv: hInv(h) && txWF(h) && mqPublish != nil
//@   assigns h.snOutN, h.snOut, h.pktBuffer, map(h.transactions.bypktID), h.topicIDsUsedUp, h.topicID.next, h.topicID.overflow, h.topicID.pos,
//@      h.topicID.cycle, h.topicID.given, h.pendingOwner
//@   loop 0 invariant [C25] candidate_ids: i <= 0xFFFF
//@   at SetSNPublish.0 before let tx = arg(0)
//@   at NewRegister.0 before ghost h.pendingOwner = upd(h.pendingOwner, arg(0), tx)
//@   at Store.0 before let key = arg(1)
//@   at Store.0 before assert [C25] new_entry_wf: txEntryWF(h, arg(2)) && owns(arg(2))
// C06: the exchange stored for a broker PUBLISH must not replace an exchange the client started that is still in progress;
// the message ID chosen for the REGISTER of a QoS 0 PUBLISH is one no exchange uses.
//@   at Store.0 before check [C06] no_client_exchange_replaced: !(arg(1) in h.transactions.bypktID) || !(startedByClient(h.transactions.bypktID[arg(1)]) && inProgress(h.transactions.bypktID[arg(1)]))
//@   at Store.0 before check [C06] register_id_of_a_qos0_publish_is_free: mqPublish.Qos == 0 ==> !(arg(1) in h.transactions.bypktID)
// lemma steps: the invariant of the pending announcements is carried across the draw of a topic ID, the claim of the
// drawn ID by this exchange, and the store of the exchange
//@   at newTopicID.0 after assert [C25] pend_after_draw: pendInv(h)
//@   at NewRegister.0 before assert [C25] pend_after_claim: pendInv(h)
//@   at Store.0 after assert [C25] pend_after_store: pendInv(h)
//@   at Store.0 after assert [C25] entries_after_store: txEntries(h)
//@   at SetSNPublish.0 before assert [C23] queue_before_register: bufWF(h)
//@   at Store.0 before assert [C23] queue_before_store: bufWF(h)
//@   at Store.0 after assert [C23] queue_after_store: bufWF(h)
//@   let s0 = old(h.snOutN)
//@   let b0 = old(len(h.pktBuffer))
//@   let asleep = old(state(h)) == 2
//@   let handed = ite(asleep, len(h.pktBuffer) == b0 + 1, h.snOutN == s0 + 1)
//@   let out = ite(asleep, h.pktBuffer[b0], h.snOut[s0])
//@   ensures [C25] keeps_inv: hInv(h)
//@   ensures [C25] state_same: state(h) == old(state(h))
//@   ensures [C25] keeps_tx_new: handed && (key in h.transactions.bypktID) ==> txEntryWF(h, h.transactions.bypktID[key]) && owns(h.transactions.bypktID[key])
//@   ensures [C25] keeps_tx_old: forall k uint16 :: old(k in h.transactions.bypktID) && (k in h.transactions.bypktID) && h.transactions.bypktID[k] == old(h.transactions.bypktID[k]) ==>
//@      txEntryWF(h, h.transactions.bypktID[k]) && owns(h.transactions.bypktID[k])
//@   ensures [C25] keeps_entries: txEntries(h)
//@   ensures [C25] keeps_pend: pendInv(h)
//@   ensures [C02] nothing_to_broker: h.mqttOutN == old(h.mqttOutN)
//@   ensures [C02] at_most_one: (h.snOutN == s0 || h.snOutN == s0 + 1) && (asleep ==> h.snOutN == s0) && (len(h.pktBuffer) == b0 || asleep)
//@   ensures [C02] delivered_or_error: result == nil ==> handed
//@   ensures [C02] publish_or_register: handed ==> istype(out, *snPkts1.Publish) || istype(out, *snPkts1.Register)
//@   ensures [C02] publish_fields: handed && istype(out, *snPkts1.Publish) ==> sameSlice(out.(*snPkts1.Publish).Data, mqPublish.Payload) &&
//@      out.(*snPkts1.Publish).QOS == mqPublish.Qos && out.(*snPkts1.Publish).Retain == mqPublish.Retain &&
//@      out.(*snPkts1.Publish).DUPProperty.dup == mqPublish.Dup && out.(*snPkts1.Publish).messageID == mqPublish.MessageID
//@   ensures [C02] publish_topic_resolves: handed && istype(out, *snPkts1.Publish) ==>
//@      denotesDefined(h, out.(*snPkts1.Publish).TopicIDType, out.(*snPkts1.Publish).TopicID) &&
//@      denotesName(h, out.(*snPkts1.Publish).TopicIDType, out.(*snPkts1.Publish).TopicID, mqPublish.TopicName)
//@   let isReg = handed && istype(out, *snPkts1.Register)
//@   let regID = out.(*snPkts1.Register).TopicID
//@   ensures [C02] register_names_the_topic: isReg ==> out.(*snPkts1.Register).TopicName == mqPublish.TopicName
//@   ensures [C04] register_id_in_range: isReg ==> 1 <= out.(*snPkts1.Register).TopicID && out.(*snPkts1.Register).TopicID <= 0xFFFE
//@   ensures [C04] register_id_is_new: isReg ==> !old(regID in h.topicID.given) && (regID in h.topicID.given)
//@   ensures [C04] register_id_not_predefined: isReg ==> !nameDefined(h.predefinedTopics, h.clientID, out.(*snPkts1.Register).TopicID)
//@   ensures [C02] register_exchange_stored: isReg ==> out.(*snPkts1.Register).messageID == key && (key in h.transactions.bypktID)
//@   ensures [C02] publish_follows_register: isReg ==> pendingPub(h.transactions.bypktID[key]) != nil && pendingPub(h.transactions.bypktID[key]).TopicID == out.(*snPkts1.Register).TopicID && pendingPub(h.transactions.bypktID[key]).TopicIDType == 0
//@   ensures [C02] pending_publish_fields: isReg ==> sameSlice(pendingPub(h.transactions.bypktID[key]).Data, mqPublish.Payload) && pendingPub(h.transactions.bypktID[key]).QOS == mqPublish.Qos &&
//@      pendingPub(h.transactions.bypktID[key]).Retain == mqPublish.Retain && pendingPub(h.transactions.bypktID[key]).messageID == mqPublish.MessageID
//@   ensures [C04] registrations_untouched: forall k iface :: (k in h.registeredTopics) == old(k in h.registeredTopics) &&
//@      smGet(h.registeredTopics, k) == old(smGet(h.registeredTopics, k))
''')

text = ''.join(out)
open(P, 'w').write('//go:build verif\n\n// Contracts for the broker-initiated PUBLISH exchanges (generated by /verif/tools/gen_broker_publish.py:\n// three near-identical transaction types). Comment-only file read by /verif/govc.\n\npackage gateway\n\n' + text)
print('generated %d lines' % text.count('\n'))
