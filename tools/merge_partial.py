#!/usr/bin/env python3
"""Merges work/selftest_partial.json (results of an interrupted corpus run) into selftest/RESULTS.json:
the newer result of a case replaces the older one; cases that no longer exist are dropped."""
import json, os
HERE = os.path.dirname(os.path.dirname(os.path.abspath(__file__)))
rp = os.path.join(HERE, "selftest", "RESULTS.json")
pp = os.path.join(HERE, "work", "selftest_partial.json")
old = json.load(open(rp)) if os.path.exists(rp) else []
new = json.load(open(pp))
done = {r["case"] for r in new}
res = [r for r in old if r["case"] not in done] + new
res = [r for r in res if os.path.isfile(os.path.join(HERE, r["case"], "patch.diff"))]
res.sort(key=lambda r: r["case"])
json.dump(res, open(rp, "w"), indent=1)
print("%d cases recorded (%d from the partial run), %d not ok" % (len(res), len(new), sum(1 for r in res if not r.get("ok"))))
