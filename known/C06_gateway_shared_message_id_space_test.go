package gateway

// NOT a demo for a change: shows that the UNCHANGED tree already violates C06
// in the gateway (this test FAILS on the unchanged tree).
//   go test -vet=off -count=1 -run 'TestC06BaselineGateway' ./gateway/

import (
	"testing"
	"time"

	mqPkts "github.com/eclipse/paho.mqtt.golang/packets"
	"github.com/stretchr/testify/assert"

	snPkts1 "github.com/energomonitor/bisquitt/packets1"
	"github.com/energomonitor/bisquitt/topics"
)

func TestC06BaselineGateway(t *testing.T) {
	assert := assert.New(t)
	stp := newTestSetup(t, false, topics.PredefinedTopics{})
	defer stp.cancel()

	msgID := uint16(7)
	stp.connect()
	subTopicID := stp.subscribe("test/sub", 1)
	pubTopicID := stp.register("test/pub")

	// client --PUBLISH QoS 1 (7)--> GW --> broker
	snPublish := snPkts1.NewPublish(pubTopicID, []byte("from-client"), false, 1, false, snPkts1.TIT_REGISTERED)
	snPublish.SetMessageID(msgID)
	stp.snSend(snPublish, false)
	_ = stp.mqttRecv().(*mqPkts.PublishPacket)

	// broker --PUBLISH QoS 1 (7)--> GW --> client
	mqttPublish := mqPkts.NewControlPacket(mqPkts.Publish).(*mqPkts.PublishPacket)
	mqttPublish.Qos = 1
	mqttPublish.TopicName = "test/sub"
	mqttPublish.Payload = []byte("from-broker")
	mqttPublish.MessageID = msgID
	stp.mqttSend(mqttPublish, false)
	snPublish2 := stp.snRecv().(*snPkts1.Publish)
	assert.Equal(subTopicID, snPublish2.TopicID)

	// broker --PUBACK (7)--> GW; the client must get PUBACK(7).
	mqttPuback := mqPkts.NewControlPacket(mqPkts.Puback).(*mqPkts.PubackPacket)
	mqttPuback.MessageID = msgID
	stp.mqttSend(mqttPuback, false)

	data, err := testRead("MQTT-SN", stp.snConn, 700*time.Millisecond)
	if err != nil {
		t.Fatalf("client's PUBLISH QoS 1 exchange: PUBACK not delivered: %v", err)
	}
	t.Logf("got % x", data)
}
