package client

import (
	pkts1 "github.com/energomonitor/bisquitt/packets1"
	"testing"
	"time"
)

func c23ReadOne(t *testing.T, stp *testSetup, what string) {
	raw := make([]byte, 200000)
	_ = stp.conn.SetReadDeadline(time.Now().Add(2 * time.Second))
	n, err := stp.conn.Read(raw)
	if err != nil {
		t.Logf("%s: nothing sent (%v)", what, err)
		return
	}
	if _, err := c23m3CheckDatagram(raw[:n]); err != nil {
		t.Errorf("%s: malformed datagram: %v", what, err)
	} else {
		t.Logf("%s: well-formed datagram of %d octets", what, n)
	}
}

func TestC23ExistingEmptyClientID(t *testing.T) {
	stp := newTestSetup(t, "")
	defer stp.cancel()
	go stp.client.Connect()
	c23ReadOne(t, stp, "CONNECT with empty ClientID")
}

func TestC23ExistingLongClientID(t *testing.T) {
	stp := newTestSetup(t, string(make([]byte, 9000)))
	defer stp.cancel()
	go stp.client.Connect()
	c23ReadOne(t, stp, "CONNECT with 9000-octet ClientID")
}

func TestC23ExistingEmptyRegisterSubscribe(t *testing.T) {
	stp := newTestSetup(t, "cid")
	defer stp.cancel()
	go stp.client.Register("")
	c23ReadOne(t, stp, `Register("")`)
	go stp.client.Subscribe("", 0, nil)
	c23ReadOne(t, stp, `Subscribe("")`)
}

func TestC23ExistingLongWill(t *testing.T) {
	stp := newTestSetup(t, "cid")
	defer stp.cancel()
	stp.client.cfg.WillTopic = "w"
	stp.client.cfg.WillPayload = make([]byte, 9000)
	go stp.client.Connect()
	c23ReadOne(t, stp, "CONNECT")
	stp.send(pkts1.NewWillMsgReq())
	c23ReadOne(t, stp, "WILLMSG with 9000-octet will payload")
}
