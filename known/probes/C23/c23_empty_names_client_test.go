package client

// Probe for C23: FAILS while Client.Register("") sends a REGISTER a gateway cannot decode.
//   /verif/known/probe client /verif/known/probes/C23/c23_empty_names_client_test.go -run TestVerifProbeC23EmptyRegister

import (
	"testing"
	"time"

	pkts1 "github.com/energomonitor/bisquitt/packets1"
)

func TestVerifProbeC23EmptyRegister(t *testing.T) {
	stp := newTestSetup(t, "test-client")
	defer stp.cancel()
	go func() {
		stp.connect("test-client")
		buf := make([]byte, 8192)
		stp.conn.SetReadDeadline(time.Now().Add(700 * time.Millisecond))
		n, err := stp.conn.Read(buf)
		if err != nil {
			return
		}
		if n >= 2 && buf[1] == 0x0a {
			var r pkts1.Register
			if uerr := r.Unpack(buf[2:n]); uerr != nil {
				t.Errorf("client sent a REGISTER the gateway cannot decode (% x): %v", buf[:n], uerr)
			}
		}
	}()
	if err := stp.client.Connect(); err != nil {
		t.Fatal(err)
	}
	go stp.client.Register("")
	time.Sleep(900 * time.Millisecond)
}
