package gateway

import (
	"testing"
	"time"

	mqPkts "github.com/eclipse/paho.mqtt.golang/packets"

	"github.com/energomonitor/bisquitt/topics"
)

// Broker PUBLISH with an empty topic name matched by a wildcard subscription.
func TestC23ExistingEmptyTopicRegister(t *testing.T) {
	stp := newTestSetup(t, false, topics.PredefinedTopics{})
	defer stp.cancel()
	stp.connect()
	stp.subscribe("#", 1)
	mqPublish := mqPkts.NewControlPacket(mqPkts.Publish).(*mqPkts.PublishPacket)
	mqPublish.TopicName = ""
	mqPublish.Qos = 1
	mqPublish.Payload = []byte("p")
	stp.mqttSend(mqPublish, true)
	n := c23m2DrainAndCheck(t, stp.snConn, 1500*time.Millisecond, "empty broker topic")
	t.Logf("%d datagrams", n)
}
