package client

// Probe for C23 (client half): FAILS while Client.Publish hands a datagram larger than the transport
// maximum (8192 bytes) to its connection.
//   /verif/known/probe client /verif/known/probes/C23/c23_client_oversize_test.go -run TestVerifProbeC23ClientOversize

import (
	"testing"
	"time"

	pkts1 "github.com/energomonitor/bisquitt/packets1"
)

func TestVerifProbeC23ClientOversize(t *testing.T) {
	stp := newTestSetup(t, "test-client")
	defer stp.cancel()
	go func() {
		stp.connect("test-client")
		buf := make([]byte, 70000)
		for {
			stp.conn.SetReadDeadline(time.Now().Add(2 * time.Second))
			n, err := stp.conn.Read(buf)
			if err != nil {
				return
			}
			if n > pkts1.MaxPacketLen {
				t.Errorf("client sent a datagram of %d bytes (maximum %d)", n, pkts1.MaxPacketLen)
			}
		}
	}()
	if err := stp.client.Connect(); err != nil {
		t.Fatal(err)
	}
	err := stp.client.Publish("ab", make([]byte, 9000), 0, false)
	time.Sleep(300 * time.Millisecond)
	t.Logf("Publish returned %v", err)
}
