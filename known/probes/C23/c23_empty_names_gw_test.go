package gateway

// Probe for C23: FAILS while the gateway sends an undecodable REGISTER (empty topic name) to the client.
//   /verif/known/probe gateway /verif/known/probes/C23/c23_empty_names_gw_test.go -run TestVerifProbeC23EmptyBrokerTopic

import (
	"testing"
	"time"

	mqPkts "github.com/eclipse/paho.mqtt.golang/packets"

	snPkts1 "github.com/energomonitor/bisquitt/packets1"
	"github.com/energomonitor/bisquitt/topics"
)

func TestVerifProbeC23EmptyBrokerTopic(t *testing.T) {
	stp := newTestSetup(t, false, topics.PredefinedTopics{})
	defer stp.cancel()
	stp.connect()
	stp.subscribe("#", 0)

	pub := mqPkts.NewControlPacket(mqPkts.Publish).(*mqPkts.PublishPacket)
	pub.Qos = 0
	pub.TopicName = ""
	pub.Payload = []byte("x")
	stp.mqttSend(pub, false)

	stp.snConn.SetReadDeadline(time.Now().Add(700 * time.Millisecond))
	buf := make([]byte, 8192)
	n, err := stp.snConn.Read(buf)
	if err != nil {
		return // nothing sent: fine
	}
	if n >= 2 && buf[1] == 0x0a { // REGISTER
		var r snPkts1.Register
		if uerr := r.Unpack(buf[2:n]); uerr != nil {
			t.Errorf("gateway sent a REGISTER the client cannot decode (% x): %v", buf[:n], uerr)
		}
	}
}
