package gateway_test

import (
	"context"
	"net"
	"sync"
	"testing"
	"time"

	mqPkts "github.com/eclipse/paho.mqtt.golang/packets"

	"github.com/energomonitor/bisquitt/client"
	"github.com/energomonitor/bisquitt/gateway"
	pkts1 "github.com/energomonitor/bisquitt/packets1"
	"github.com/energomonitor/bisquitt/topics"
	"github.com/energomonitor/bisquitt/util"
)

// Observation on the UNCHANGED tree: QoS -1 PUBLISH with a predefined ID sent
// without CONNECT. The gateway does not know the client ID, so it resolves the
// ID with the "*" entries only.
func TestC32Pre_QOS3PredefinedWithoutConnect(t *testing.T) {
	const clientID = "c1"
	shared := topics.PredefinedTopics{
		clientID: {1: "dev/own/data"},
		"*":      {1: "dev/any/data"},
	}
	ctx, cancel := context.WithCancel(context.Background())
	defer cancel()
	broker := newC32Broker(t)
	defer broker.listener.Close()
	gwAddr := c32StartGateway(t, ctx, broker, c32CopyTopics(shared))

	c := client.NewClient(util.NoOpLogger{}, &client.ClientConfig{
		ClientID:         clientID,
		PredefinedTopics: c32CopyTopics(shared),
		RetryDelay:       time.Second,
		RetryCount:       2,
		ConnectTimeout:   5 * time.Second,
		KeepAlive:        60 * time.Second,
	})
	if err := c.Dial(gwAddr); err != nil {
		t.Fatal(err)
	}
	if err := c.PublishPredefined(1, []byte("p"), 3, false); err != nil {
		t.Fatal(err)
	}
	name, _ := shared.GetTopicName(clientID, 1)
	broker.expectPublished(name, "p")
}
// ---------------------------------------------------------------------------
// End-to-end harness: real client library <--UDP--> real gateway <--TCP-->
// fake in-process MQTT broker. Only the public API of the packages is used.
// ---------------------------------------------------------------------------

type c32Msg struct {
	topic   string
	payload string
}

// c32Broker is a minimal in-process MQTT 3.1.1 broker stub. It accepts every
// CONNECT and SUBSCRIBE, records SUBSCRIBE topic filters and PUBLISH packets
// and is able to push a PUBLISH to the (single) connected gateway handler.
type c32Broker struct {
	t          *testing.T
	listener   net.Listener
	mu         sync.Mutex
	conn       net.Conn
	subscribed chan string
	published  chan c32Msg
}

func newC32Broker(t *testing.T) *c32Broker {
	l, err := net.Listen("tcp", "127.0.0.1:0")
	if err != nil {
		t.Fatal(err)
	}
	b := &c32Broker{
		t:          t,
		listener:   l,
		subscribed: make(chan string, 16),
		published:  make(chan c32Msg, 16),
	}
	go b.acceptLoop()
	return b
}

func (b *c32Broker) addr() *net.TCPAddr {
	return b.listener.Addr().(*net.TCPAddr)
}

func (b *c32Broker) acceptLoop() {
	for {
		conn, err := b.listener.Accept()
		if err != nil {
			return
		}
		b.mu.Lock()
		b.conn = conn
		b.mu.Unlock()
		go b.serve(conn)
	}
}

func (b *c32Broker) write(conn net.Conn, pkt mqPkts.ControlPacket) {
	b.mu.Lock()
	defer b.mu.Unlock()
	_ = pkt.Write(conn)
}

func (b *c32Broker) serve(conn net.Conn) {
	defer conn.Close()
	for {
		pktx, err := mqPkts.ReadPacket(conn)
		if err != nil {
			return
		}
		switch pkt := pktx.(type) {
		case *mqPkts.ConnectPacket:
			connack := mqPkts.NewControlPacket(mqPkts.Connack).(*mqPkts.ConnackPacket)
			connack.ReturnCode = mqPkts.Accepted
			b.write(conn, connack)
		case *mqPkts.SubscribePacket:
			suback := mqPkts.NewControlPacket(mqPkts.Suback).(*mqPkts.SubackPacket)
			suback.MessageID = pkt.MessageID
			suback.ReturnCodes = pkt.Qoss
			b.write(conn, suback)
			for _, topic := range pkt.Topics {
				b.subscribed <- topic
			}
		case *mqPkts.UnsubscribePacket:
			unsuback := mqPkts.NewControlPacket(mqPkts.Unsuback).(*mqPkts.UnsubackPacket)
			unsuback.MessageID = pkt.MessageID
			b.write(conn, unsuback)
		case *mqPkts.PublishPacket:
			if pkt.Qos == 1 {
				puback := mqPkts.NewControlPacket(mqPkts.Puback).(*mqPkts.PubackPacket)
				puback.MessageID = pkt.MessageID
				b.write(conn, puback)
			}
			b.published <- c32Msg{pkt.TopicName, string(pkt.Payload)}
		case *mqPkts.PingreqPacket:
			b.write(conn, mqPkts.NewControlPacket(mqPkts.Pingresp))
		case *mqPkts.DisconnectPacket:
			return
		}
	}
}

// publish sends a QoS 0 PUBLISH from the broker to the gateway.
func (b *c32Broker) publish(topic, payload string) {
	b.mu.Lock()
	conn := b.conn
	b.mu.Unlock()
	if conn == nil {
		b.t.Fatal("broker: no gateway connection")
	}
	publish := mqPkts.NewControlPacket(mqPkts.Publish).(*mqPkts.PublishPacket)
	publish.TopicName = topic
	publish.Payload = []byte(payload)
	publish.Qos = 0
	b.write(conn, publish)
}

func (b *c32Broker) expectSubscribed(want string) {
	b.t.Helper()
	select {
	case got := <-b.subscribed:
		if got != want {
			b.t.Fatalf("broker received SUBSCRIBE for %q, the client subscribed to %q", got, want)
		}
	case <-time.After(5 * time.Second):
		b.t.Fatalf("broker received no SUBSCRIBE (expected %q)", want)
	}
}

func (b *c32Broker) expectPublished(wantTopic, wantPayload string) {
	b.t.Helper()
	select {
	case got := <-b.published:
		if got.topic != wantTopic || got.payload != wantPayload {
			b.t.Fatalf("broker received PUBLISH %q=%q, the client published %q=%q",
				got.topic, got.payload, wantTopic, wantPayload)
		}
	case <-time.After(5 * time.Second):
		b.t.Fatalf("broker received no PUBLISH (expected topic %q)", wantTopic)
	}
}

// c32FreeUDPAddr returns a free UDP address on the loopback interface.
func c32FreeUDPAddr(t *testing.T) string {
	conn, err := net.ListenPacket("udp", "127.0.0.1:0")
	if err != nil {
		t.Fatal(err)
	}
	addr := conn.LocalAddr().String()
	conn.Close()
	return addr
}

// c32StartGateway starts a real gateway connected to the broker stub and
// returns its MQTT-SN (UDP) address.
func c32StartGateway(t *testing.T, ctx context.Context, broker *c32Broker, predefined topics.PredefinedTopics) string {
	addr := c32FreeUDPAddr(t)
	gw := gateway.NewGateway(util.NoOpLogger{}, &gateway.GatewayConfig{
		MqttBrokerAddress:     broker.addr(),
		MqttConnectionTimeout: 5 * time.Second,
		PredefinedTopics:      predefined,
		RetryDelay:            time.Second,
		RetryCount:            2,
	})
	go func() {
		if err := gw.ListenAndServe(ctx, addr); err != nil {
			t.Errorf("gateway: %v", err)
		}
	}()
	// Wait until the gateway socket is bound.
	deadline := time.Now().Add(5 * time.Second)
	for time.Now().Before(deadline) {
		conn, err := net.ListenPacket("udp", addr)
		if err != nil {
			return addr // address in use => gateway is listening
		}
		conn.Close()
		time.Sleep(10 * time.Millisecond)
	}
	t.Fatal("gateway did not start listening")
	return ""
}

// c32StartClient creates a real client, connects it to the gateway and returns it.
func c32StartClient(t *testing.T, gwAddr, clientID string, predefined topics.PredefinedTopics) *client.Client {
	c := client.NewClient(util.NoOpLogger{}, &client.ClientConfig{
		ClientID:         clientID,
		CleanSession:     true,
		PredefinedTopics: predefined,
		RetryDelay:       time.Second,
		RetryCount:       2,
		ConnectTimeout:   5 * time.Second,
		KeepAlive:        60 * time.Second,
	})
	if err := c.Dial(gwAddr); err != nil {
		t.Fatal(err)
	}
	if err := c.Connect(); err != nil {
		t.Fatalf("client connect: %v", err)
	}
	return c
}

// c32CopyTopics makes a deep copy so that the client and the gateway share the
// same configuration but not the same map object.
func c32CopyTopics(src topics.PredefinedTopics) topics.PredefinedTopics {
	dst := topics.PredefinedTopics{}
	for clientID, m := range src {
		for topicID, topic := range m {
			dst.Add(clientID, topic, topicID)
		}
	}
	return dst
}

// c32Delivery collects messages delivered to the client's subscription callbacks.
type c32Delivery struct {
	ch chan c32Msg
}

func newC32Delivery() *c32Delivery {
	return &c32Delivery{ch: make(chan c32Msg, 16)}
}

func (d *c32Delivery) callback(_ *client.Client, topic string, pkt *pkts1.Publish) {
	d.ch <- c32Msg{topic, string(pkt.Data)}
}

func (d *c32Delivery) expect(t *testing.T, wantTopic, wantPayload string) {
	t.Helper()
	select {
	case got := <-d.ch:
		if got.topic != wantTopic || got.payload != wantPayload {
			t.Fatalf("client got message %q=%q, the broker sent %q=%q",
				got.topic, got.payload, wantTopic, wantPayload)
		}
	case <-time.After(5 * time.Second):
		t.Fatalf("client did not get the message the broker sent on %q", wantTopic)
	}
}
