package gateway

// Observation on the UNCHANGED tree (not one of the three changes): when the
// broker cannot be reached, handler.run returns but the goroutine which waits
// for the end of the session (<-groupCtx.Done()) stays behind until the whole
// gateway is shut down.
//
//   go test -vet=off -count=1 -run 'TestC13DialFailLeak' ./gateway/

import (
	"context"
	"net"
	"runtime"
	"strings"
	"testing"
	"time"

	"github.com/energomonitor/bisquitt/topics"
	"github.com/energomonitor/bisquitt/util"
)

func TestC13DialFailLeak(t *testing.T) {
	// A port nobody listens on.
	l, err := net.Listen("tcp", "127.0.0.1:0")
	if err != nil {
		t.Skip(err)
	}
	addr := l.Addr().(*net.TCPAddr)
	l.Close()

	ctx, cancel := context.WithCancel(context.Background())
	defer cancel()
	gwSN, clSN := net.Pipe()
	defer clSN.Close()
	go func() { // the client reads the CONNACK(congestion)
		buf := make([]byte, 64)
		for {
			if _, err := clSN.Read(buf); err != nil {
				return
			}
		}
	}()

	cfg := &handlerConfig{MqttBrokerAddress: addr, MqttConnectionTimeout: time.Second}
	h := newHandler(cfg, topics.PredefinedTopics{}, util.NewDebugLogger("h-leak"))
	h.run(ctx, gwSN) // returns: broker unreachable
	gwSN.Close()

	time.Sleep(500 * time.Millisecond)
	buf := make([]byte, 1<<20)
	n := runtime.Stack(buf, true)
	if strings.Contains(string(buf[:n]), "(*handler1).run.func1") {
		t.Errorf("a goroutine of the finished session is still running")
	}
}
