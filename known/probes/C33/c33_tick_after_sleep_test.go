package client

// Probe for C33: FAILS while the keep-alive loop sends a PINGREQ on a tick that was already waiting when the
// client fell asleep. Schedule: the loop is blocked in Ping() (PINGRESP delayed) while the ticker fires again
// and Sleep() completes (its state notification is buffered); when the PINGRESP arrives the loop's select finds
// both the tick and the notification ready and picks one at random - the scenario is repeated up to 10 times.
//   /verif/known/probe client /verif/known/probes/C33/c33_tick_after_sleep_test.go -run TestVerifProbeC33TickAfterSleep

import (
	"context"
	"math/rand"
	"net"
	"sync/atomic"
	"testing"
	"time"

	pkts1 "github.com/energomonitor/bisquitt/packets1"
	"github.com/energomonitor/bisquitt/topics"
	"github.com/energomonitor/bisquitt/util"
)

// newTestSetup of client_test.go with a keep-alive period (the loop is started by Dial).
func verifC33Setup(t *testing.T, clientID string, keepAlive time.Duration) *testSetup {
	ctx, cancel := context.WithCancel(context.Background())
	stp := &testSetup{ID: "VerifC33", t: t, ctx: ctx, cancel: cancel, clientDone: make(chan struct{})}
	rnd := rand.New(rand.NewSource(time.Now().UTC().UnixNano()))
	var listener *net.UnixListener
	listener, stp.conn = stp.createSocketPair("unixpacket", rnd)
	cfg := &ClientConfig{
		PredefinedTopics: make(topics.PredefinedTopics),
		CleanSession:     true,
		ClientID:         clientID,
		RetryDelay:       time.Second,
		RetryCount:       2,
		ConnectTimeout:   time.Second,
		KeepAlive:        keepAlive,
	}
	stp.client = NewClient(util.NewDebugLogger(stp.ID), cfg)
	stp.client.mockupDialFunc = func() (net.Conn, error) { return listener.AcceptUnix() }
	if err := stp.client.Dial(""); err != nil {
		t.Fatal(err)
	}
	return stp
}

func verifC33Round(t *testing.T, round int) (pingedAsleep bool) {
	stp := verifC33Setup(t, "test-client", 300*time.Millisecond)
	defer stp.cancel()
	var asleep, bad int32
	gwDone := make(chan struct{})
	go func() {
		defer close(gwDone)
		stp.connect("test-client")
		first := true
		for {
			stp.conn.SetReadDeadline(time.Now().Add(3 * time.Second))
			buf := make([]byte, 1024)
			n, err := stp.conn.Read(buf)
			if err != nil {
				return
			}
			switch {
			case n == 2 && buf[1] == 0x16: // keep-alive PINGREQ
				if atomic.LoadInt32(&asleep) == 1 {
					atomic.StoreInt32(&bad, 1)
					return
				}
				if first {
					first = false
					// the PINGRESP is delayed: it arrives after the next tick and after the client fell asleep
					go func() {
						time.Sleep(700 * time.Millisecond)
						stp.send(pkts1.NewPingresp())
					}()
				} else {
					stp.send(pkts1.NewPingresp())
				}
			case n > 2 && buf[1] == 0x16: // wake-up PINGREQ
				atomic.StoreInt32(&asleep, 0)
				stp.send(pkts1.NewPingresp())
				return
			case buf[1] == 0x18: // DISCONNECT(duration)
				stp.send(pkts1.NewDisconnect(0))
				time.Sleep(50 * time.Millisecond)
				atomic.StoreInt32(&asleep, 1)
			}
		}
	}()
	if err := stp.client.Connect(); err != nil {
		t.Fatal(err)
	}
	time.Sleep(450 * time.Millisecond) // first keep-alive ping is out, its PINGRESP pending
	go stp.client.Sleep(1500 * time.Millisecond)
	<-gwDone
	return atomic.LoadInt32(&bad) == 1
}

func TestVerifProbeC33TickAfterSleep(t *testing.T) {
	for i := 0; i < 10; i++ {
		if verifC33Round(t, i) {
			t.Fatalf("round %d: keep-alive PINGREQ sent while the client is asleep", i)
		}
	}
}
