package client

// Probe for C33: FAILS while a keep-alive PINGREQ begun before the client fell asleep is retransmitted
// after the client is asleep.
//   /verif/known/probe client /verif/known/probes/C33/c33_ping_retransmitted_asleep_test.go -run TestVerifProbeC33PingAsleep

import (
	"testing"
	"time"

	pkts1 "github.com/energomonitor/bisquitt/packets1"
	"github.com/energomonitor/bisquitt/util"
)

func TestVerifProbeC33PingAsleep(t *testing.T) {
	stp := newTestSetup(t, "test-client")
	defer stp.cancel()
	gwDone := make(chan struct{})
	go func() {
		defer close(gwDone)
		stp.connect("test-client")
		asleep := false
		for {
			stp.conn.SetReadDeadline(time.Now().Add(2500 * time.Millisecond))
			buf := make([]byte, 1024)
			n, err := stp.conn.Read(buf)
			if err != nil {
				return
			}
			if n < 2 {
				continue
			}
			switch buf[1] {
			case 0x16: // PINGREQ
				if n > 2 {
					// the wake-up PINGREQ of the sleep cycle (carries the client ID): answered
					asleep = false
					stp.send(pkts1.NewPingresp())
					continue
				}
				// keep-alive PINGREQ: never answered (lost)
				if asleep {
					t.Errorf("PINGREQ retransmitted while the client is asleep (state %v)", stp.client.state.Get())
				}
			case 0x18: // DISCONNECT with duration: acknowledge
				stp.send(pkts1.NewDisconnect(0))
				time.Sleep(50 * time.Millisecond)
				asleep = true
			}
		}
	}()
	if err := stp.client.Connect(); err != nil {
		t.Fatal(err)
	}
	go stp.client.Ping() // a keep-alive ping whose PINGRESP is lost
	time.Sleep(200 * time.Millisecond)
	if err := stp.client.Sleep(3 * time.Second); err != nil {
		t.Fatalf("Sleep: %v", err)
	}
	if st := stp.client.state.Get(); st != util.StateActive {
		t.Fatalf("state after the sleep cycle: %v", st)
	}
	<-gwDone
}
