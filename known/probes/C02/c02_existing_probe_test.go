package gateway

// Probe of the UNCHANGED tree (copy into gateway/ and run
//   go test -vet=off -count=1 -run 'TestC02Existing' ./gateway/ ).
// It FAILS on the unchanged tree: a SUBSCRIBE by name which the broker refuses
// (SUBACK 0x80) still leaves the topic ID registered in the gateway; the client
// gets a SUBACK with a "not supported" return code and so does not accept the
// ID.  A later broker PUBLISH to that name (matched by a wildcard
// subscription) is sent under that ID without a REGISTER.

import (
	"testing"

	mqPkts "github.com/eclipse/paho.mqtt.golang/packets"
	"github.com/stretchr/testify/assert"

	snPkts1 "github.com/energomonitor/bisquitt/packets1"
	"github.com/energomonitor/bisquitt/topics"
)

func TestC02ExistingRefusedSubackIDUsed(t *testing.T) {
	assert := assert.New(t)
	topic := "sensors/kitchen"
	known := map[uint16]string{}

	stp := newTestSetup(t, false, topics.PredefinedTopics{})
	defer stp.cancel()
	stp.connect()
	stp.subscribe("sensors/+", 0)

	// client --SUBSCRIBE(name)--> GW --> broker, broker refuses.
	snSubscribe := snPkts1.NewSubscribe(topic, 0, false, 0, snPkts1.TIT_STRING)
	stp.snSend(snSubscribe, true)
	mqttSubscribe := stp.mqttRecv().(*mqPkts.SubscribePacket)
	mqttSuback := mqPkts.NewControlPacket(mqPkts.Suback).(*mqPkts.SubackPacket)
	mqttSuback.MessageID = mqttSubscribe.MessageID
	mqttSuback.ReturnCodes = []byte{0x80}
	stp.mqttSend(mqttSuback, false)
	snSuback := stp.snRecv().(*snPkts1.Suback)
	assert.NotEqual(snPkts1.RC_ACCEPTED, snSuback.ReturnCode)
	// Refused => the client does not record snSuback.TopicID.

	mqttPublish := mqPkts.NewControlPacket(mqPkts.Publish).(*mqPkts.PublishPacket)
	mqttPublish.Qos = 0
	mqttPublish.TopicName = topic
	mqttPublish.Payload = []byte("msg")
	stp.mqttSend(mqttPublish, true)

	var snPublish *snPkts1.Publish
	for snPublish == nil {
		switch pkt := stp.snRecv().(type) {
		case *snPkts1.Register:
			known[pkt.TopicID] = pkt.TopicName
			regack := snPkts1.NewRegack(pkt.TopicID, snPkts1.RC_ACCEPTED)
			regack.SetMessageID(pkt.MessageID())
			stp.snSend(regack, false)
		case *snPkts1.Publish:
			snPublish = pkt
		default:
			t.Fatalf("unexpected packet: %v", pkt)
		}
	}
	name, ok := known[snPublish.TopicID]
	assert.True(ok, "client cannot resolve %v, it knows only %v", snPublish, known)
	assert.Equal(topic, name)
	stp.disconnect()
}
