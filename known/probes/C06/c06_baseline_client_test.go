package client

// NOT a demo for a change: shows that the UNCHANGED tree already violates C06
// in the client library (this test FAILS on the unchanged tree).
//   go test -vet=off -count=1 -run 'TestC06BaselineClient' ./client/

import (
	"sync"
	"testing"
	"time"

	pkts1 "github.com/energomonitor/bisquitt/packets1"
)

func TestC06BaselineClient(t *testing.T) {
	clientID := "test-client"
	topic := "test/a"
	topicID := uint16(1)

	stp := newTestSetup(t, clientID)
	defer stp.cancel()

	gotPubcomp := make(chan struct{})
	var wg sync.WaitGroup
	wg.Add(1)
	go func() {
		defer wg.Done()
		stp.connect(clientID)
		register := stp.recv().(*pkts1.Register)
		regack := pkts1.NewRegack(topicID, pkts1.RC_ACCEPTED)
		regack.CopyMessageID(register)
		stp.send(regack)

		// Broker-initiated PUBLISH QoS 2 with MsgID 2 = the MsgID the
		// client's counter is going to use next.
		brokerPublish := pkts1.NewPublish(topicID, []byte("from-broker"), false, 2, false, pkts1.TIT_REGISTERED)
		brokerPublish.SetMessageID(2)
		stp.send(brokerPublish)
		_ = stp.recv().(*pkts1.Pubrec)

		// Client-initiated PUBLISH QoS 1 with MsgID 2.
		publish := stp.recv().(*pkts1.Publish)
		if publish.MessageID() != 2 {
			t.Errorf("unexpected MsgID %d", publish.MessageID())
		}
		// PUBREL of the broker's exchange.
		pubrel := pkts1.NewPubrel()
		pubrel.SetMessageID(2)
		stp.send(pubrel)
		// PUBACK of the client's exchange.
		puback := pkts1.NewPuback(topicID, pkts1.RC_ACCEPTED)
		puback.SetMessageID(2)
		stp.send(puback)
		for {
			switch stp.recv().(type) {
			case *pkts1.Pubcomp:
				close(gotPubcomp)
			case *pkts1.Disconnect:
				stp.send(pkts1.NewDisconnect(0))
				return
			}
		}
	}()

	if err := stp.client.Connect(); err != nil {
		t.Fatal(err)
	}
	if err := stp.client.Register(topic); err != nil {
		t.Fatal(err)
	}
	// Let the broker's PUBLISH arrive first.
	time.Sleep(200 * time.Millisecond)
	if err := stp.client.Publish(topic, []byte("x"), 1, false); err != nil {
		t.Errorf("client's exchange failed: %v", err)
	}
	select {
	case <-gotPubcomp:
	case <-time.After(700 * time.Millisecond):
		t.Errorf("broker's PUBLISH QoS 2 exchange did not complete: no PUBCOMP")
	}
	if err := stp.client.Disconnect(); err != nil {
		t.Fatal(err)
	}
	wg.Wait()
}
