package client

// Probe for C18 (sleep exchange): FAILS while a timer callback of the sleep exchange that runs after the exchange
// has finished still acts (retransmits the DISCONNECT / wakes the client up and sends a PINGREQ). Timer.Stop does not
// wait for a callback that has already been started, so "fired just before Fail()/Success()" is a real schedule; the
// probe calls the callbacks directly after Fail(), which is exactly what that schedule executes.
//   /verif/known/probe client /verif/known/probes/C18/c18_sleep_timer_after_finish_test.go -run TestVerifProbeC18SleepTimers

import (
	"errors"
	"testing"
	"time"

	"github.com/energomonitor/bisquitt/util"
)

func TestVerifProbeC18SleepTimers(t *testing.T) {
	stp := newTestSetup(t, "test-client")
	defer stp.cancel()
	sent := make(chan byte, 16)
	go func() {
		stp.connect("test-client")
		buf := make([]byte, 1024)
		for {
			stp.conn.SetReadDeadline(time.Now().Add(2 * time.Second))
			n, err := stp.conn.Read(buf)
			if err != nil {
				close(sent)
				return
			}
			if n >= 2 {
				sent <- buf[1]
			}
		}
	}()
	if err := stp.client.Connect(); err != nil {
		t.Fatal(err)
	}
	tx := newSleepTransaction(stp.client, 10*time.Second)
	if err := tx.Sleep(); err != nil { // DISCONNECT(10) goes out, resend timer armed
		t.Fatal(err)
	}
	if b := <-sent; b != 0x18 {
		t.Fatalf("expected DISCONNECT, got type %#x", b)
	}
	tx.Fail(errors.New("given up")) // the exchange is finished
	<-tx.Done()
	tx.resendDisconnect() // the resend timer had fired just before Fail()
	tx.wakeup()           // likewise the sleep timer
	time.Sleep(300 * time.Millisecond)
	stp.cancel()
	var after []byte
	for b := range sent {
		after = append(after, b)
	}
	if len(after) != 0 {
		t.Errorf("packets sent by a finished sleep exchange: types %#x", after)
	}
	if st := stp.client.state.Get(); st != util.StateActive {
		t.Errorf("a finished sleep exchange changed the client's state to %v", st)
	}
}
