package client

import (
	"testing"

	pkts1 "github.com/energomonitor/bisquitt/packets1"
)

// Gateway answers a QoS 1 PUBLISH with DISCONNECT instead of PUBACK.
func TestPrePublishQOS1GatewayDisconnect(t *testing.T) {
	clientID := "test-client"
	stp := newTestSetup(t, clientID)
	defer stp.cancel()

	go func() {
		stp.connect(clientID)
		publish := stp.recv().(*pkts1.Publish)
		_ = publish
		stp.send(pkts1.NewDisconnect(0))
	}()

	if err := stp.client.Connect(); err != nil {
		t.Fatal(err)
	}
	err := stp.client.Publish("ab", []byte("x"), 1, false)
	if err == nil {
		t.Fatalf("Publish returned nil although no PUBACK was ever sent")
	}
	t.Logf("err = %v", err)
}
