package gateway

// Probes for C11 on the real gateway code (each FAILS while the defect it shows is present).
//   /verif/known/probe gateway /verif/known/probes/C11/c11_sleep_probes_test.go -run TestVerifProbeC11

import (
	"testing"
	"time"

	mqPkts "github.com/eclipse/paho.mqtt.golang/packets"

	snPkts "github.com/energomonitor/bisquitt/packets"
	snPkts1 "github.com/energomonitor/bisquitt/packets1"
	"github.com/energomonitor/bisquitt/topics"
)

func c11sleep(stp *testSetup, secs uint16) {
	stp.snSend(snPkts1.NewDisconnect(secs), false)
	_ = stp.snRecv().(*snPkts1.Disconnect)
}

func c11drain(stp *testSetup) []snPkts.Packet {
	var got []snPkts.Packet
	for {
		p := stp.snRecv()
		got = append(got, p)
		if _, ok := p.(*snPkts1.Pingresp); ok {
			return got
		}
	}
}

// A QoS 1 message for a sleeping client is queued once; the retransmission timer must not queue it again.
func TestVerifProbeC11RetransmissionQueuedTwice(t *testing.T) {
	topic := "test/topic"
	stp := newTestSetup(t, false, topics.PredefinedTopics{})
	defer stp.cancel()
	stp.connect()
	stp.subscribe(topic, 1)
	c11sleep(stp, 30)

	pub := mqPkts.NewControlPacket(mqPkts.Publish).(*mqPkts.PublishPacket)
	pub.Qos = 1
	pub.MessageID = 11
	pub.TopicName = topic
	pub.Payload = []byte("once")
	stp.mqttSend(pub, false)
	time.Sleep(stp.handler.cfg.RetryDelay + stp.handler.cfg.RetryDelay/2) // one retransmission period passes

	stp.snSend(snPkts1.NewPingreq([]byte("test-client")), false)
	n := 0
	for _, p := range c11drain(stp) {
		if _, ok := p.(*snPkts1.Publish); ok {
			n++
		}
	}
	if n != 1 {
		t.Errorf("the sleeping client got the message %d times on wake-up, want once", n)
	}
}

// A sleeping client that renews its sleep with another DISCONNECT(duration) keeps what is queued for it.
func TestVerifProbeC11RenewedSleepLosesQueue(t *testing.T) {
	topic := "test/topic"
	stp := newTestSetup(t, false, topics.PredefinedTopics{})
	defer stp.cancel()
	stp.connect()
	stp.subscribe(topic, 0)
	c11sleep(stp, 30)

	pub := mqPkts.NewControlPacket(mqPkts.Publish).(*mqPkts.PublishPacket)
	pub.Qos = 0
	pub.TopicName = topic
	pub.Payload = []byte("queued")
	stp.mqttSend(pub, false)
	time.Sleep(200 * time.Millisecond)

	stp.snSend(snPkts1.NewDisconnect(30), false) // renew the sleep
	time.Sleep(200 * time.Millisecond)
	stp.snSend(snPkts1.NewPingreq([]byte("test-client")), false)
	n := 0
	for _, p := range c11drain(stp) {
		if _, ok := p.(*snPkts1.Publish); ok {
			n++
		}
	}
	if n != 1 {
		t.Errorf("the message queued before the renewed DISCONNECT was delivered %d times on wake-up, want once", n)
	}
}
