package client

// Findings on the UNCHANGED tree (both tests FAIL on the unchanged tree).
// Copy into client/ and run:
//   go test -vet=off -count=1 -run 'TestC16Baseline' ./client/

import (
	"sync"
	"testing"
	"time"

	"github.com/stretchr/testify/assert"

	pkts1 "github.com/energomonitor/bisquitt/packets1"
)

// The client's PUBCOMP is lost; the gateway retransmits PUBREL; the client
// must answer with PUBCOMP again.
func TestC16BaselineLostPubcomp(t *testing.T) {
	assert := assert.New(t)
	clientID := "test-client"
	topic := "test/a"
	stp := newTestSetup(t, clientID)
	defer stp.cancel()

	var wg sync.WaitGroup
	wg.Add(1)
	go func() {
		defer wg.Done()
		stp.connect(clientID)
		subscribe := stp.recv().(*pkts1.Subscribe)
		suback := pkts1.NewSuback(1, pkts1.RC_ACCEPTED, 0)
		suback.CopyMessageID(subscribe)
		stp.send(suback)

		msgID := uint16(123)
		publish := pkts1.NewPublish(suback.TopicID, []byte("x"), false, 2, false, pkts1.TIT_REGISTERED)
		publish.SetMessageID(msgID)
		stp.send(publish)
		pubrec := stp.recv().(*pkts1.Pubrec)
		assert.Equal(msgID, pubrec.MessageID())

		pubrel := pkts1.NewPubrel()
		pubrel.SetMessageID(msgID)
		stp.send(pubrel)
		pubcomp := stp.recv().(*pkts1.Pubcomp) // considered lost
		assert.Equal(msgID, pubcomp.MessageID())

		// PUBREL retransmission
		stp.send(pubrel)
		data, err := testRead(stp.conn, 2*time.Second)
		if err != nil {
			t.Errorf("no PUBCOMP for the retransmitted PUBREL: %v", err)
		} else {
			t.Logf("got %d bytes", len(data))
		}
		stp.conn.SetReadDeadline(time.Time{})
		stp.disconnect()
	}()

	if err := stp.client.Connect(); err != nil {
		t.Fatal(err)
	}
	if err := stp.client.Subscribe(topic, 2, func(*Client, string, *pkts1.Publish) {}); err != nil {
		t.Fatal(err)
	}
	time.Sleep(3 * time.Second)
	stp.client.Disconnect()
	wg.Wait()
}

// The client's REGACK is lost; the gateway retransmits the same REGISTER; the
// client must accept it again.
func TestC16BaselineLostRegack(t *testing.T) {
	assert := assert.New(t)
	clientID := "test-client"
	stp := newTestSetup(t, clientID)
	defer stp.cancel()

	var wg sync.WaitGroup
	wg.Add(1)
	go func() {
		defer wg.Done()
		stp.connect(clientID)

		register := pkts1.NewRegister(7, "test/b")
		register.SetMessageID(55)
		stp.send(register)
		regack := stp.recv().(*pkts1.Regack) // considered lost
		assert.Equal(pkts1.RC_ACCEPTED, regack.ReturnCode)

		// REGISTER retransmission (identical)
		stp.send(register)
		regack = stp.recv().(*pkts1.Regack)
		assert.Equal(pkts1.RC_ACCEPTED, regack.ReturnCode, "retransmitted REGISTER rejected")
		stp.disconnect()
	}()

	if err := stp.client.Connect(); err != nil {
		t.Fatal(err)
	}
	time.Sleep(time.Second)
	stp.client.Disconnect()
	wg.Wait()
}
