package client

// Probe for C25 (client): FAILS (the test binary panics) while the resend timer of the sleep exchange can run
// after the gateway's DISCONNECT has been handled. Schedule shown: the receive goroutine handles the gateway's
// reply before Sleep() has armed its resend timer (the reply is handed to handlePacket while Sleep's Write is
// still returning); the timer is then never stopped and retransmits a nil packet after RetryDelay.
//   /verif/known/probe client /verif/known/probes/C25/c25_sleep_resend_nil_disconnect_test.go -run TestVerifProbeC25SleepResend

import (
	"net"
	"testing"
	"time"

	pkts1 "github.com/energomonitor/bisquitt/packets1"
)

type verifFastReplyConn struct {
	net.Conn
	c *Client
}

func (w *verifFastReplyConn) Write(b []byte) (int, error) {
	n, err := w.Conn.Write(b)
	if len(b) >= 2 && b[1] == 0x18 && len(b) == 4 { // DISCONNECT with a duration
		done := make(chan struct{})
		go func() {
			defer close(done)
			w.c.handlePacket(pkts1.NewDisconnect(0)) // the gateway's reply, handled by the receive goroutine
		}()
		select {
		case <-done:
		case <-time.After(200 * time.Millisecond):
		}
	}
	return n, err
}

func TestVerifProbeC25SleepResend(t *testing.T) {
	stp := newTestSetup(t, "test-client")
	defer stp.cancel()
	go func() {
		stp.connect("test-client")
		buf := make([]byte, 1024)
		for {
			stp.conn.SetReadDeadline(time.Now().Add(4 * time.Second))
			n, err := stp.conn.Read(buf)
			if err != nil {
				return
			}
			if n > 2 && buf[1] == 0x16 { // wake-up PINGREQ
				stp.send(pkts1.NewPingresp())
			}
		}
	}()
	if err := stp.client.Connect(); err != nil {
		t.Fatal(err)
	}
	stp.client.conn = &verifFastReplyConn{Conn: stp.client.conn, c: stp.client}
	if err := stp.client.Sleep(2500 * time.Millisecond); err != nil {
		t.Fatalf("Sleep: %v", err)
	}
}
