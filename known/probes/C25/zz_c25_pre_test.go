package client

// Pre-existing (unchanged tree) timing window, NOT one of the mutants.
// Client.subscribe / Register / unsubscribe do
//     c.transactions.Store(msgID, transaction)   // visible to receiveLoop
//     transaction.Proceed(nil, pkt)              // sets transaction.Data
// If the receive goroutine handles a SUBACK/REGACK/UNSUBACK carrying that
// (predictable, sequential) MsgId between the two statements, t.Data is still
// nil and the unchecked assertion t.Data.(*pkts1.Subscribe) panics.
// The test below puts the client in exactly that intermediate state.

import (
	"sync"
	"testing"

	pkts1 "github.com/energomonitor/bisquitt/packets1"
)

func TestC25PreexistingStoreBeforeProceed(t *testing.T) {
	clientID := "test-client"
	stp := newTestSetup(t, clientID)
	defer stp.cancel()
	var wg sync.WaitGroup
	wg.Add(1)
	go func() { defer wg.Done(); stp.connect(clientID) }()
	if err := stp.client.Connect(); err != nil {
		t.Fatal(err)
	}
	wg.Wait()

	c := stp.client
	msgID, _ := c.msgID.Next()
	transaction := newSubscribeTransaction(c, msgID, nil)
	c.transactions.Store(msgID, transaction)
	// <- receive goroutine scheduled here, SUBACK(msgID) already in the socket

	suback := pkts1.NewSuback(1, pkts1.RC_ACCEPTED, 0)
	suback.SetMessageID(msgID)
	defer func() {
		if p := recover(); p != nil {
			t.Fatalf("client panicked: %v", p)
		}
	}()
	_ = c.handlePacket(suback)
}
