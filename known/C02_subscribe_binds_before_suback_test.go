// Witness of the known finding
//   property=C02 obligation=gateway.(*handler1).handleSubscribe#post.binds_no_id_before_the_client_is_told
// on the real code (run: /verif/known/run C02_subscribe_binds_before_suback).
//
// History: an active client sends SUBSCRIBE "a/b" (topic name, no wildcard);
// before the broker's SUBACK arrives the broker sends PUBLISH "a/b" (MQTT
// allows this). The gateway forwards it as MQTT-SN PUBLISH with
// TopicIDType=0 (registered) and the topic ID it has just drawn, although no
// SUBACK (or REGISTER) carrying that ID has been handed to the client yet:
// by its own knowledge the client cannot resolve the ID.
package gateway

import (
	"bytes"
	"context"
	"net"
	"testing"
	"time"

	mqPkts "github.com/eclipse/paho.mqtt.golang/packets"
	"golang.org/x/sync/errgroup"

	snPkts1 "github.com/energomonitor/bisquitt/packets1"
	"github.com/energomonitor/bisquitt/topics"
	"github.com/energomonitor/bisquitt/util"
)

type verifRecConn struct{ writes [][]byte }

func (c *verifRecConn) Read(p []byte) (int, error)         { select {} }
func (c *verifRecConn) Write(p []byte) (int, error)        { c.writes = append(c.writes, append([]byte(nil), p...)); return len(p), nil }
func (c *verifRecConn) Close() error                       { return nil }
func (c *verifRecConn) LocalAddr() net.Addr                { return &net.UDPAddr{} }
func (c *verifRecConn) RemoteAddr() net.Addr               { return &net.UDPAddr{} }
func (c *verifRecConn) SetDeadline(t time.Time) error      { return nil }
func (c *verifRecConn) SetReadDeadline(t time.Time) error  { return nil }
func (c *verifRecConn) SetWriteDeadline(t time.Time) error { return nil }

func TestVerifKnownC02SubscribeBindsBeforeSuback(t *testing.T) {
	ctx, cancel := context.WithCancel(context.Background())
	defer cancel()
	cfg := &handlerConfig{RetryDelay: time.Minute, RetryCount: 3}
	h := newHandler(cfg, topics.PredefinedTopics{}, util.NewProductionLogger("verif"))
	sn, mq := &verifRecConn{}, &verifRecConn{}
	h.snConn = util.NewConnWithContext(ctx, sn, time.Second)
	h.mqttConn = util.NewConnWithContext(ctx, mq, time.Second)
	h.group, _ = errgroup.WithContext(ctx)
	h.clientID = "c"
	h.setState(util.StateActive)

	// step 1: SUBSCRIBE "a/b" from the client
	sub := snPkts1.NewSubscribe("a/b", 0, false, 1, snPkts1.TIT_STRING)
	sub.SetMessageID(7)
	if err := h.handleMqttSn(ctx, sub); err != nil {
		t.Fatal(err)
	}
	if len(sn.writes) != 0 {
		t.Fatalf("unexpected datagram to the client after SUBSCRIBE: %x", sn.writes)
	}
	// step 2: the broker's PUBLISH "a/b" overtakes its SUBACK
	pub := mqPkts.NewControlPacket(mqPkts.Publish).(*mqPkts.PublishPacket)
	pub.TopicName = "a/b"
	pub.Payload = []byte("x")
	if err := h.handleMqtt(ctx, pub); err != nil {
		t.Fatal(err)
	}
	if len(sn.writes) != 1 {
		t.Fatalf("expected one datagram to the client, got %d", len(sn.writes))
	}
	pkt, err := snPkts1.ReadPacket(bytes.NewReader(sn.writes[0]))
	if err != nil {
		t.Fatal(err)
	}
	p, ok := pkt.(*snPkts1.Publish)
	if !ok {
		t.Logf("first datagram to the client is %v (not a PUBLISH): the finding is gone", pkt)
		return
	}
	t.Fatalf("WITNESS CONFIRMED: client got PUBLISH TopicIDType=%d TopicID=%d before any SUBACK/REGISTER told it that ID (datagram %x)",
		p.TopicIDType, p.TopicID, sn.writes[0])
}
