package client

// Witness of the recorded C06 finding in the client library (one transaction store keyed by message ID only):
// a QoS 2 PUBLISH from the gateway is in progress under message ID 2 when Client.Publish (QoS 1) draws message
// ID 2 for its own exchange and replaces it. The gateway's PUBREL is still confirmed (PUBCOMP), but the message
// is never delivered to the subscription's handler. FAILS with "WITNESS CONFIRMED" while the finding is present.
//   /verif/known/probe client /verif/known/C06_client_exchange_replaces_gateway_exchange_test.go -run TestVerifKnownC06Client

import (
	"sync"
	"testing"
	"time"

	pkts1 "github.com/energomonitor/bisquitt/packets1"
)

func TestVerifKnownC06Client(t *testing.T) {
	clientID := "test-client"
	topic := "test/a"
	topicID := uint16(1)

	stp := newTestSetup(t, clientID)
	defer stp.cancel()

	delivered := make(chan string, 4)
	var wg sync.WaitGroup
	wg.Add(1)
	go func() {
		defer wg.Done()
		stp.connect(clientID)
		subscribe := stp.recv().(*pkts1.Subscribe)
		suback := pkts1.NewSuback(topicID, pkts1.RC_ACCEPTED, 2)
		suback.CopyMessageID(subscribe)
		stp.send(suback)

		// gateway-initiated PUBLISH QoS 2 under message ID 2 (the ID the client's counter uses next)
		gwPublish := pkts1.NewPublish(topicID, []byte("from-gateway"), false, 2, false, pkts1.TIT_REGISTERED)
		gwPublish.SetMessageID(2)
		stp.send(gwPublish)
		_ = stp.recv().(*pkts1.Pubrec)

		// the client's own PUBLISH QoS 1, message ID 2
		publish := stp.recv().(*pkts1.Publish)
		if publish.MessageID() != 2 {
			t.Errorf("unexpected MsgID %d", publish.MessageID())
		}
		pubrel := pkts1.NewPubrel()
		pubrel.SetMessageID(2)
		stp.send(pubrel)
		puback := pkts1.NewPuback(topicID, pkts1.RC_ACCEPTED)
		puback.SetMessageID(2)
		stp.send(puback)
		for {
			switch stp.recv().(type) {
			case *pkts1.Disconnect:
				stp.send(pkts1.NewDisconnect(0))
				return
			}
		}
	}()

	if err := stp.client.Connect(); err != nil {
		t.Fatal(err)
	}
	if err := stp.client.Subscribe(topic, 2, func(c *Client, topic string, pkt *pkts1.Publish) {
		delivered <- string(pkt.Data)
	}); err != nil {
		t.Fatal(err)
	}
	time.Sleep(200 * time.Millisecond) // the gateway's PUBLISH arrives first
	if err := stp.client.Publish(topic, []byte("x"), 1, false); err != nil {
		t.Errorf("client's exchange failed: %v", err)
	}
	select {
	case d := <-delivered:
		if d != "from-gateway" {
			t.Errorf("unexpected delivery %q", d)
		}
	case <-time.After(900 * time.Millisecond):
		t.Errorf("WITNESS CONFIRMED: the gateway's QoS 2 message (message ID 2) was never delivered: its exchange was replaced by the client's PUBLISH with the same message ID")
	}
	if err := stp.client.Disconnect(); err != nil {
		t.Fatal(err)
	}
	wg.Wait()
}
